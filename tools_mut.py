"""Developer tool: confirm a seeded change and run the registered check of its property against it.

   python3 tools_mut.py confirm <mutdir>            -> tests pass with patch, demo fails with / passes without
   python3 tools_mut.py check <mutdir> [tier]       -> VF_REPO=<scratch worktree with patch> ./vf check <prop>
   python3 tools_mut.py all <dir-of-mutdirs> [tier] -> both, for each sub-directory; appends to build/mutants.log

The scratch worktree lives under /tmp and is removed afterwards. /repo itself is never touched.
"""
import json
import os
import shutil
import subprocess
import sys
import time

WT = "/tmp/vf_mutcheck_%d" % os.getpid()


def sh(cmd, **kw):
    return subprocess.run(cmd, shell=True, capture_output=True, text=True, **kw)


def make_wt(patch=None):
    sh("git -C /repo worktree remove --force %s" % WT)
    shutil.rmtree(WT, ignore_errors=True)
    r = sh("git -C /repo worktree add -q --detach %s HEAD" % WT)
    assert r.returncode == 0, r.stderr
    if patch:
        r = sh("git -C %s apply %s" % (WT, patch))
        if r.returncode != 0:
            r = sh("cd %s && patch -p1 < %s" % (WT, patch))
        assert r.returncode == 0, "patch does not apply: " + r.stderr + r.stdout


def drop_wt():
    sh("git -C /repo worktree remove --force %s" % WT)
    shutil.rmtree(WT, ignore_errors=True)
    sh("git -C /repo worktree prune")


def confirm(mutdir):
    mutdir = os.path.abspath(mutdir)
    patch = os.path.join(mutdir, "patch.diff")
    demo = os.path.join(mutdir, "demo.py")
    out = {}
    make_wt()
    env = "PYTHONPATH=%s PYTHONDONTWRITEBYTECODE=1" % WT
    out["demo_clean"] = sh("cd %s && %s timeout 300 /venv/bin/python %s" % (WT, env, demo)).returncode
    make_wt(patch)
    r = sh("cd %s && %s timeout 900 /venv/bin/python -m pytest -q -p no:cacheprovider pyformlang 2>&1 | tail -3" % (WT, env))
    out["tests"] = r.stdout.strip().splitlines()[-1] if r.stdout.strip() else r.stderr[-200:]
    d = sh("cd %s && %s timeout 300 /venv/bin/python %s" % (WT, env, demo))
    out["demo_patched"] = d.returncode
    out["ok"] = out["demo_clean"] == 0 and out["demo_patched"] not in (0, 124) and "passed" in out["tests"] \
        and "failed" not in out["tests"]
    return out


def check(mutdir, tier="quick", props=None):
    mutdir = os.path.abspath(mutdir)
    patch = os.path.join(mutdir, "patch.diff")
    meta = json.load(open(os.path.join(mutdir, "meta.json")))
    props = props or [meta["property"][:3]]
    make_wt(patch)
    res = {}
    for prop in props:
        t0 = time.time()
        r = sh("cd /verif && VF_REPO=%s VF_NO_SELFCHECK=1 ./vf check %s --tier %s" % (WT, prop, tier))
        lines = [l for l in r.stdout.splitlines() if l.startswith("VIOLATION") or "HARNESS-ERROR" in l
                 or l.startswith("KNOWN-FINDING")]
        cex = [l for l in r.stdout.splitlines() if l.startswith("[vf] counterexample")][:2]
        res[prop] = {"exit": r.returncode, "wall_s": round(time.time() - t0), "lines": lines[:4],
                     "cex": [c[:400] for c in cex]}
    return res


def main():
    cmd = sys.argv[1]
    try:
        if cmd == "confirm":
            print(json.dumps(confirm(sys.argv[2]), indent=1))
        elif cmd == "check":
            print(json.dumps(check(sys.argv[2], *(sys.argv[3:4])), indent=1))
        elif cmd == "all":
            root = sys.argv[2]
            tier = sys.argv[3] if len(sys.argv) > 3 else "quick"
            only = sys.argv[4:]
            done = set()
            if os.path.exists("/verif/build/mutants.log") and os.environ.get("MUT_RESUME"):
                for line in open("/verif/build/mutants.log"):
                    done.add(json.loads(line)["mutant"])
            for name in sorted(os.listdir(root)):
                d = os.path.join(root, name)
                if not os.path.isfile(os.path.join(d, "patch.diff")):
                    continue
                if only and not any(name.startswith(o) for o in only):
                    continue
                if name in done:
                    continue
                try:
                    rec = {"mutant": name, "confirm": confirm(d)}
                    if rec["confirm"]["ok"]:
                        rec["check"] = check(d, tier)
                except AssertionError as exc:
                    rec = {"mutant": name, "error": str(exc)[:300]}
                with open("/verif/build/mutants.log", "a") as f:
                    f.write(json.dumps(rec) + "\n")
                print(json.dumps(rec)[:600], flush=True)
    finally:
        drop_wt()


if __name__ == "__main__":
    main()
