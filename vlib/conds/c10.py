"""C10 — CFG union / concatenation / closure / reversal / substitution build exactly that set."""
from typing import Tuple

from vlib import chx, enc
from vlib.chx import pinned
from vlib.oracles import cfg as OC
from vlib.registry import Cond, product_pins
from vlib.conds.c08 import grammar_tags, P2

cfg_canonical = enc.cfg_canonical
L = 3

NAMESETS = [["S", "A"], ["#STARTUNION#", "#VARPOSCLOS#"], ["S#SUBS#0", "S"], ["#STARTCLOS#", "#STARTCONC#"],
            ["S", "#STARTCLOS#"], ["S", "#STARTCONC#"]]
# second operand: None = the same object; otherwise productions with codes 0,1 = variables (S, A), 2,3 = a, b
SECOND = [None, [], [(0, [])], [(0, [2])], [(0, [3])], [(0, [2, 0]), (0, [])], [(0, [1]), (1, [3])],
          [(0, [0, 0]), (0, [2])]]


def concat_lang(l1, l2):
    return {u + w for u in l1 for w in l2 if len(u) + len(w) <= L}


def star_lang(l1, positive=False):
    cur = set(l1) if positive else {()}
    while True:
        nxt = cur | concat_lang(cur, l1)
        if positive:
            nxt |= set(l1)
        if nxt == cur:
            return cur
        cur = nxt


def substitute_lang(g1, ter, g2):
    """Language of g1 with terminal `ter` replaced by L(g2), up to length L, by grammar construction."""
    prods = []
    for h, b in g1.prods:
        prods.append((("1", h), tuple(("V", ("1", s[1])) if s[0] == "V" else
                                      (("V", ("2", g2.start)) if s[1] == ter else s) for s in b)))
    for h, b in g2.prods:
        prods.append((("2", h), tuple(("V", ("2", s[1])) if s[0] == "V" else s for s in b)))
    return OC.words_upto(OC.G(("1", g1.start), prods, variables=[("2", g2.start)]), L)


def _oracle(args, obs):
    prods, names, second = args
    g1 = enc.ref_cfg(prods, 2, start=names[0], vars_=names)
    same = second is None
    g2 = g1 if same else enc.ref_cfg(second, 2)
    tags = grammar_tags(g1) + (["same_object"] if same else [])
    l1, l2 = OC.words_upto(g1, L), OC.words_upto(g2, L)
    wants = {"union": l1 | l2, "or": l1 | l2, "concatenate": concat_lang(l1, l2), "add": concat_lang(l1, l2),
             "get_closure": star_lang(l1), "get_positive_closure": star_lang(l1, True),
             "reverse": {tuple(reversed(w)) for w in l1}, "invert": {tuple(reversed(w)) for w in l1},
             "substitute": substitute_lang(g1, "a", g2)}
    fails = []
    for op, res in obs.items():
        if res[0] == "exc":
            fails.append(chx.exc_failure(op, res, tags=tags))
            continue
        got = OC.extract(res[1])
        gl = OC.words_upto(got, L)
        if gl != wants[op]:
            fails.append({"kind": "language", "op": op, "tags": tags,
                          "detail": "differs on %r" % (sorted(gl ^ wants[op])[:3],), "result": got.describe()})
    return len(prods) >= 1 and bool(l1), fails, {"g1": g1.describe(), "g2": "same object" if same else g2.describe()}


def c10_ops(t: P2, p: int, names: int, second: int) -> bool:
    """
    pre: pinned(p=p, h0=t[0], l0=t[1], names=names, second=second)
    pre: ((0 <= p) & (p <= 2)) & ((0 <= names) & (names < 6)) & ((0 <= second) & (second < 8))
    pre: cfg_canonical(t, p, 2, 2, 2)
    post: _
    """
    raw = (t, p, names, second)
    prods = enc.decode_cfg(t, p, 2, 2, 2)
    nm = NAMESETS[enc.pick(names, 6)]
    sec = SECOND[enc.pick(second, 8)]
    chx.enter("c10_ops", raw)
    from pyformlang.cfg import Terminal
    g1 = enc.build_cfg(prods, 2, start=nm[0], vars_=nm)
    g2 = g1 if sec is None else enc.build_cfg(sec, 2)
    obs = {"union": chx.guarded(g1.union, g2), "concatenate": chx.guarded(g1.concatenate, g2),
           "get_closure": chx.guarded(g1.get_closure), "get_positive_closure": chx.guarded(g1.get_positive_closure),
           "reverse": chx.guarded(g1.reverse), "substitute": chx.guarded(g1.substitute, {Terminal("a"): g2})}
    if chx.thorough():
        obs.update({"or": chx.guarded(lambda: g1 | g2), "add": chx.guarded(lambda: g1 + g2),
                    "invert": chx.guarded(lambda: ~g1)})
    return chx.judge("C10", "c10_ops", raw, (prods, nm, sec), obs, _oracle, realize_obs=False)


# ---- substitution of two terminals at once (the substitution is simultaneous: the grammars put in are not rewritten) ----
# (grammar for a, grammar for b, a inserted first?); production codes as in SECOND
PAIRS = [([(0, [3])], [(0, [2])], True), ([(0, [3])], [(0, [2])], False),
         ([(0, [3, 3])], [(0, [2]), (0, [])], True), ([(0, [2, 3])], [(0, [2, 2])], False),
         ([(0, [2])], [(0, [1, 2]), (1, [3])], True), ([(0, [1]), (1, [3]), (1, [2, 2])], [(0, [3])], False),
         ([(0, [])], [(0, [2, 0]), (0, [3])], True), ([(0, [3, 0]), (0, [2])], [], False)]


def substitute2_lang(g1, ga, gb):
    """Language of g1 with a replaced by L(ga) and b by L(gb) simultaneously, up to length L."""
    starts = {"a": ("V", ("a", ga.start)), "b": ("V", ("b", gb.start))}
    prods = []
    for h, b in g1.prods:
        prods.append((("1", h), tuple(("V", ("1", s[1])) if s[0] == "V" else starts.get(s[1], s) for s in b)))
    for tag, g in (("a", ga), ("b", gb)):
        for h, b in g.prods:
            prods.append(((tag, h), tuple(("V", (tag, s[1])) if s[0] == "V" else s for s in b)))
    return OC.words_upto(OC.G(("1", g1.start), prods, variables=[("a", ga.start), ("b", gb.start)]), L)


def _oracle_s2(args, obs):
    prods, pair = args
    g1 = enc.ref_cfg(prods, 2)
    ga, gb = enc.ref_cfg(pair[0], 2), enc.ref_cfg(pair[1], 2)
    tags = grammar_tags(g1) + ["two_keys", "a_first" if pair[2] else "b_first"]
    want = substitute2_lang(g1, ga, gb)
    fails = []
    for op, res in obs.items():
        if res[0] == "exc":
            fails.append(chx.exc_failure(op, res, tags=tags))
            continue
        got = OC.extract(res[1])
        gl = OC.words_upto(got, L)
        if gl != want:
            fails.append({"kind": "language", "op": op, "tags": tags,
                          "detail": "differs on %r" % (sorted(gl ^ want)[:3],), "result": got.describe()})
    return len(prods) >= 1 and bool(OC.words_upto(g1, L)), fails, \
        {"g1": g1.describe(), "ga": ga.describe(), "gb": gb.describe(), "a_first": pair[2]}


def c10_subst2(t: P2, p: int, pair: int) -> bool:
    """
    pre: pinned(p=p, h0=t[0], l0=t[1], pair=pair)
    pre: ((0 <= p) & (p <= 2)) & ((0 <= pair) & (pair < 8))
    pre: cfg_canonical(t, p, 2, 2, 2)
    post: _
    """
    raw = (t, p, pair)
    prods = enc.decode_cfg(t, p, 2, 2, 2)
    pr = PAIRS[enc.pick(pair, 8)]
    chx.enter("c10_subst2", raw)
    from pyformlang.cfg import Terminal
    g1 = enc.build_cfg(prods, 2)
    ga, gb = enc.build_cfg(pr[0], 2), enc.build_cfg(pr[1], 2)
    sub = {Terminal("a"): ga, Terminal("b"): gb} if pr[2] else {Terminal("b"): gb, Terminal("a"): ga}
    obs = {"substitute2": chx.guarded(g1.substitute, sub)}
    return chx.judge("C10", "c10_subst2", raw, (prods, pr), obs, _oracle_s2, realize_obs=False)


def _sh_s2(tier):
    if tier == "quick":
        return product_pins(p=[1], pair=[0, 1, 3, 5]) + product_pins(p=[2], h0=[0], l0=[2], pair=[0, 1, 2, 3])
    return product_pins(p=[1], pair=list(range(8))) + \
        product_pins(p=[2], h0=[0, 1], l0=[0, 1, 2], pair=list(range(8)))


def _sh(tier):
    if tier == "quick":
        return [{"p": 1, "names": 0, "second": 0}, {"p": 1, "names": 1, "second": 6}] + \
            product_pins(p=[2], h0=[0], l0=[0, 1, 2], names=[0, 1], second=[0, 3, 6]) + \
            product_pins(p=[2], h0=[0], l0=[1, 2], names=[2], second=[3, 6]) + \
            product_pins(p=[2], h0=[0], l0=[2], names=[4, 5], second=[3])
    return product_pins(p=[0, 1], names=[0, 1, 2, 3], second=list(range(8))) + \
        product_pins(p=[2], h0=[0, 1], l0=[0, 1, 2], names=[0, 1, 2, 3], second=list(range(8))) + \
        product_pins(p=[2], h0=[0, 1], l0=[0, 1, 2], names=[4, 5], second=[0, 3, 6])


FUNCS = ["CFG.substitute", "CFG.union", "CFG.concatenate", "CFG.get_closure", "CFG.get_positive_closure",
         "CFG.reverse", "CFG.__or__", "CFG.__add__", "CFG.__invert__"]
RULE = "first operand has a production and a non-empty language up to length 3"

CONDS = [
    Cond("C10", c10_ops, _sh,
         {"quick": "G1: grammars with 1-2 productions over 2 variables/{a,b}, bodies <=2 (2 productions: first head = "
                   "start symbol), variable names {S,A}, {#STARTUNION#,#VARPOSCLOS#}, {S#SUBS#0,S} or (first body of length 2) {S,#STARTCLOS#} / {S,#STARTCONC#}; G2 in {G1 itself, S->a, "
                   "S->A A->b (shared names)}; union, concatenate, get_closure, get_positive_closure, reverse, "
                   "substitute(a -> G2); languages compared on words of length <=3",
          "thorough": "all 904 G1 x 4 name sets x 8 second operands (+ 2 name sets with a non-start variable named like a fresh start symbol x 3 second operands) (same object, empty, eps-only, S->a, S->b, "
                      "S->aS|eps, S->A A->b, S->SS|a); also | + ~"},
         FUNCS, RULE,
         assumptions=["languages compared on all words of length <= 3 (oracle fixpoint on extracted productions)"]),
    Cond("C10", c10_subst2, _sh_s2,
         {"quick": "G1 with 1 production (all) or 2 productions (first body of length 2) over {S,A}/{a,b}; "
                   "substitute({a: Ga, b: Gb}) for 4 of 8 pairs (Ga, Gb) in which each grammar mentions the other "
                   "key's terminal (a->b b->a swap, bodies of length 2, shared variable names, eps), in both "
                   "insertion orders of the dict; language compared with the simultaneous substitution on words of "
                   "length <=3",
          "thorough": "all 904 G1 x the 8 pairs"},
         ["CFG.substitute"], RULE,
         assumptions=["languages compared on all words of length <= 3 (oracle fixpoint on extracted productions)"]),
]
