"""C04 — emptiness, determinism, acyclicity and word enumeration are exact."""
from typing import Tuple

from vlib import chx, enc
from vlib.chx import pinned
from vlib.oracles import nfa as O
from vlib.registry import Cond, product_pins
from vlib.conds.c01 import CLASSES, CLASS_NAMES, kind_ok, B8

sparse_canonical = enc.sparse_canonical
T12 = Tuple[int, int, int, int, int, int, int, int, int, int, int, int]


def _oracle(args, obs):
    kind, n, k, edges, starts, finals, labels, bound = args
    ref = enc.ref_enfa(n, edges, starts, finals, labels=labels)
    fails = []
    tags = []
    if any(ref.eps.values()):
        tags.append("has_epsilon")
    if len(ref.starts) > 1:
        tags.append("several_start_states")
    finite = O.language_finite(ref)
    wants = {"is_empty": O.is_empty(ref), "is_deterministic": O.is_deterministic_def(ref),
             "is_acyclic": not O.has_reachable_cycle(ref)}
    for op in ("is_empty", "is_deterministic", "is_acyclic"):
        res = obs[op]
        if res[0] == "exc":
            fails.append(chx.exc_failure(op, res, tags=tags, cls=CLASS_NAMES[kind]))
        elif bool(res[1]) != wants[op]:
            fails.append({"kind": "verdict", "op": op, "tags": tags, "cls": CLASS_NAMES[kind],
                          "detail": "%s() = %r, definition gives %r" % (op, res[1], wants[op])})
    if "words" in obs:
        res = obs["words"]
        if bound is None:
            expected = O.words_upto(ref, None)
        elif bound < 0:
            expected = set()
        else:
            expected = O.words_upto(ref, bound)
        if res[0] == "exc":
            fails.append(chx.exc_failure("get_accepted_words", res, tags=tags))
        else:
            got = res[1]
            as_tuples = [tuple(w) for w in got]
            if len(got) > len(expected) and len(set(as_tuples)) <= len(expected) and set(as_tuples) <= expected:
                fails.append({"kind": "duplicate", "op": "get_accepted_words", "tags": tags,
                              "detail": "a word is yielded twice (bound %r): %r" % (bound, got)})
            elif set(as_tuples) != expected or len(as_tuples) != len(expected):
                fails.append({"kind": "language", "op": "get_accepted_words", "tags": tags,
                              "detail": "bound %r: yielded %r, expected %r" % (
                                  bound, sorted(as_tuples), sorted(expected))})
    nontrivial = bool(edges) and bool(starts) and bool(finals)
    return nontrivial, fails, dict(ref.describe(), cls=CLASS_NAMES[kind], bound=bound, finite=finite)


def _run(cond, raw, kd, n, k, edges, st, fi, labels, order, bound, unbounded):
    if not kind_ok(kd, edges, st):
        return chx.assumed_away(cond)
    ref = None
    if unbounded:
        with chx.NT():
            ref = enc.ref_enfa(n, edges, st, fi, labels=labels)
            finite = O.language_finite(ref)
        if not finite:
            return chx.assumed_away(cond)   # n=None is only claimed on finite languages
    chx.enter(cond, raw, realize=False)
    fa = enc.build_enfa(CLASSES[kd], n, edges, st, fi, labels=labels, order=order)
    obs = {"is_empty": chx.guarded(fa.is_empty), "is_deterministic": chx.guarded(fa.is_deterministic),
           "is_acyclic": chx.guarded(fa.is_acyclic)}
    ml = None if unbounded else bound        # `bound` stays a symbolic int inside the library

    def words():
        out = []
        for w in chx.take(fa.get_accepted_words(ml), 40):
            out.append([s.value for s in w])
        return out
    obs["words"] = chx.guarded(words)
    return chx.judge("C04", cond, raw, (kd, n, k, edges, st, fi, labels, None if unbounded else bound), obs,
                     _oracle)


def c04_dense(kind: int, bits: B8, starts: int, finals: int, bound: int, unbounded: bool) -> bool:
    """
    pre: pinned(kind=kind, starts=starts, finals=finals, b0=bits[0], b1=bits[1], unbounded=unbounded)
    pre: ((0 <= kind) & (kind < 3)) & ((0 <= starts) & (starts < 4)) & ((0 <= finals) & (finals < 4)) & ((-1 <= bound) & (bound <= 3))
    pre: (not unbounded) or bound == 0
    post: _
    """
    raw = (kind, bits, starts, finals, bound, unbounded)
    edges = enc.decode_enfa_dense(bits, 2, 1)
    st = enc.mask_members(starts, 2)
    fi = enc.mask_members(finals, 2)
    kd = enc.pick(kind, 3)
    ub = enc.flag(unbounded)
    return _run("c04_dense", raw, kd, 2, 1, edges, st, fi, None, None, bound, ub)


def c04_sparse(kind: int, n: int, k: int, t: T12, m: int, starts: int, finals: int, perm: int,
               bound: int, unbounded: bool) -> bool:
    """
    pre: pinned(kind=kind, n=n, k=k, m=m, starts=starts, finals=finals, perm=perm, t0=t[0], t1=t[1], unbounded=unbounded)
    pre: ((0 <= kind) & (kind < 3)) & ((2 <= n) & (n <= 3)) & ((1 <= k) & (k <= 2)) & ((0 <= m) & (m <= 4)) & ((0 <= perm) & (perm < 6))
    pre: ((0 <= starts) & (starts < (4 if n == 2 else 8))) & ((0 <= finals) & (finals < (4 if n == 2 else 8))) & ((-1 <= bound) & (bound <= 3))
    pre: enc.sparse_ranges(t, n, k)
    pre: sparse_canonical(t, m)
    pre: (not unbounded) or bound == 0
    pre: n == 3 or perm == 0
    post: _
    """
    raw = (kind, n, k, t, m, starts, finals, perm, bound, unbounded)
    nn = enc.pick(n, 4)
    kk = enc.pick(k, 3)
    edges = enc.decode_enfa_sparse(t, m, nn, kk)
    st = enc.mask_members(starts, nn)
    fi = enc.mask_members(finals, nn)
    kd = enc.pick(kind, 3)
    order = enc.perm_of(perm, 3)
    labels = order if nn == 3 else None    # label permutation = visiting-order permutation
    ub = enc.flag(unbounded)
    return _run("c04_sparse", raw, kd, nn, kk, edges, st, fi, labels, order, bound, ub)


def _edit_oracle(args, obs):
    kind, n, k, edges, starts, finals, removed, bound = args
    after = [e for e in edges if e != removed]
    fails_nt = _oracle((kind, n, k, after, starts, finals, None, bound), obs)
    nontrivial, fails, note = fails_nt
    for f in fails:
        f.setdefault("tags", []).append("edited_by_remove_transition")
    return bool(after) and nontrivial, fails, dict(note, removed=removed, before=edges)


def c04_edit(kind: int, bits: B8, starts: int, finals: int, which: int, bound: int) -> bool:
    """
    pre: pinned(kind=kind, starts=starts, finals=finals, b0=bits[0], b1=bits[1], b2=bits[2])
    pre: ((0 <= kind) & (kind < 2)) & ((0 <= starts) & (starts < 4)) & ((0 <= finals) & (finals < 4)) & ((0 <= which) & (which < 8)) & ((-1 <= bound) & (bound <= 3))
    post: _
    """
    raw = (kind, bits, starts, finals, which, bound)
    edges = enc.decode_enfa_dense(bits, 2, 1)
    st = enc.mask_members(starts, 2)
    fi = enc.mask_members(finals, 2)
    kd = enc.pick(kind, 2)
    wi = enc.pick(which, 8)
    if wi >= len(edges) or not kind_ok(kd, edges, st):
        return chx.assumed_away("c04_edit")
    removed = edges[wi]
    chx.enter("c04_edit", raw, realize=False)
    fa = enc.build_enfa(CLASSES[kd], 2, edges, st, fi)
    # the predicates answer first, the automaton is then edited through the public API and must answer for
    # what it now is
    for op in ("is_empty", "is_deterministic", "is_acyclic"):
        chx.guarded(getattr(fa, op))
    q, sy, t = removed
    fa.remove_transition(q, "epsilon" if sy == 0 else enc.SYMS[sy - 1], t)
    obs = {"is_empty": chx.guarded(fa.is_empty), "is_deterministic": chx.guarded(fa.is_deterministic),
           "is_acyclic": chx.guarded(fa.is_acyclic)}

    def words():
        out = []
        for w in chx.take(fa.get_accepted_words(bound), 40):
            out.append([s.value for s in w])
        return out
    obs["words"] = chx.guarded(words)
    return chx.judge("C04", "c04_edit", raw, (kd, 2, 1, edges, st, fi, removed, bound), obs, _edit_oracle)


def _sh_dense(tier):
    if tier == "quick":
        return product_pins(kind=[0], starts=[1, 2, 3], finals=[1, 2], b0=[False], b1=[False, True],
                            unbounded=[False, True]) + \
            product_pins(kind=[1, 2], starts=[1, 3], finals=[1, 2, 3], b0=[False], b1=[False], unbounded=[False])
    return product_pins(kind=[0, 1, 2], starts=[0, 1, 2, 3], b0=[False, True], b1=[False, True],
                        unbounded=[False, True])


def _sh_sparse(tier):
    if tier == "quick":
        return product_pins(kind=[0], n=[3], k=[1], m=[2], starts=[1, 3], finals=[4, 6], perm=[0, 3],
                            unbounded=[False])
    return product_pins(kind=[0], n=[3], k=[1], m=[2], starts=[1, 3, 5], finals=[2, 4, 6], perm=[0, 3],
                        unbounded=[False, True]) + \
        product_pins(kind=[0], n=[3], k=[1], m=[3], starts=[1], finals=[4, 6], perm=[0], unbounded=[False, True],
                     t0=[0, 1, 2])


def _sh_edit(tier):
    if tier == "quick":
        return product_pins(kind=[0], starts=[1, 3], finals=[2], b0=[False], b1=[False, True], b2=[False, True]) + \
            product_pins(kind=[1], starts=[1, 3], finals=[2, 3], b0=[False], b1=[False], b2=[False])
    return product_pins(kind=[0], starts=[1, 2, 3], finals=[1, 2, 3], b0=[False], b1=[False, True], b2=[False, True]) + \
        product_pins(kind=[1], starts=[1, 2, 3], finals=[1, 2, 3], b0=[False], b1=[False], b2=[False])


FUNCS = ["EpsilonNFA.is_empty", "EpsilonNFA.is_deterministic", "NondeterministicFiniteAutomaton.is_deterministic",
         "DeterministicFiniteAutomaton.is_deterministic", "FiniteAutomaton.is_acyclic",
         "FiniteAutomaton.get_accepted_words", "FiniteAutomaton._get_states_leading_to_final",
         "FiniteAutomaton._get_next_states_from", "get_transitions_from"]
RULE = "automaton has an edge, a start and a final state"

CONDS = [
    Cond("C04", c04_dense, _sh_dense,
         {"quick": "eps-NFA with 2 states over {a} (edge (0,eps,0) absent, non-empty masks) and NFA/DFA without "
                   "eps edges x symbolic bound n in -1..3, plus n=None on finite languages",
          "thorough": "all 2^12 automata per class x symbolic bound -1..3 and None"},
         FUNCS, RULE, assumptions=["n=None judged only when the oracle says the language is finite"]),
    Cond("C04", c04_sparse, _sh_sparse,
         {"quick": "eps-NFA 3 states over {a}, 2 edges, starts {0}/{0,1}, finals {2}/{1,2}, 2 label permutations "
                   "(visiting orders) x symbolic bound -1..3",
          "thorough": "3 states over {a}: 2 edges x 3 start masks x 3 final masks x 2 permutations, 3 edges for start {0}, finals {2}/{1,2}; bounds -1..3 and None"},
         FUNCS, RULE),
    Cond("C04", c04_edit, _sh_edit,
         {"quick": "eps-NFA / NFA with 2 states over {a}: the predicates are queried, one symbolic transition is removed "
                   "with remove_transition, and the predicates and the words up to a symbolic bound -1..3 are judged on "
                   "the edited automaton (starts {0}/{0,1}, final {1}, or {1}/{0,1} for NFA)",
          "thorough": "same, all non-empty start and final masks"},
         FUNCS + ["EpsilonNFA.remove_transition", "NondeterministicTransitionFunction.remove_transition"], RULE),
]
