"""C15 — every parse tree / derivation handed out is a real derivation.

One condition per parser. The grammar is symbolic (`CFG(p, v, t, b)` of vlib/enc.py, canonical
order, ambiguous grammars included); for each grammar **every** word of length <= 3 over {a, b}
is pushed through the parser inside the path (the word loop is a plain enumeration, so each
path judges one grammar against all its short members and non-members).

What is demanded (exactly C15):
  * a returned tree: root = start symbol; every variable node with its children is a production of the
    grammar being parsed (the normal form for `get_cnf_parse_tree`); the leaves spell the word;
  * `get_leftmost_derivation()` / `get_rightmost_derivation()` of a returned (valid) tree: starts at
    [root], rewrites exactly the leftmost / rightmost variable by one production per step, ends in w;
  * a non-member is refused with the documented exception, nothing else;
  * `get_cnf_parse_tree` only: a non-empty member gets a tree (the other parsers' refusals of members
    are C14/C18 business and are not judged here); any exception that is not the documented one is a
    failure whatever the word.
"""
from typing import Tuple

from vlib import chx, enc
from vlib.chx import pinned
from vlib.oracles import cfg as OC
from vlib.oracles import trees as OT
from vlib.registry import Cond

from pyformlang.cfg import Variable, Terminal
from pyformlang.cfg.llone_parser import LLOneParser
from pyformlang.cfg.recursive_decent_parser import RecursiveDecentParser
from pyformlang.fcfg.fcfg import FCFG
from pyformlang.fcfg.feature_production import FeatureProduction
from pyformlang.fcfg.feature_structure import FeatureStructure

T12 = Tuple[int, int, int, int, int, int, int, int, int, int, int, int]
T15 = Tuple[int, int, int, int, int, int, int, int, int, int, int, int, int, int, int]
T16 = Tuple[int, int, int, int, int, int, int, int, int, int, int, int, int, int, int, int]

SIGMA = ["a", "b"]


def words_upto(n):
    out = [()]
    layer = [()]
    for _ in range(n):
        layer = [w + (s,) for w in layer for s in SIGMA]
        out += layer
    return out


def canon(t, p_used, v, nt, b):
    """Same predicate as enc.cfg_canonical (ranges; unused slots zero; used productions strictly
    increasing), written with `&` / `|` only: on symbolic values this builds ONE solver term instead of
    forking at every `and` / `or` / chained comparison (measured: enc.cfg_canonical spends > 8000 rejected
    paths on a 38-grammar shard)."""
    stride = 2 + b
    maxp = len(t) // stride
    ok = (0 <= p_used) & (p_used <= maxp)
    for i in range(maxp):
        base = i * stride
        ok = ok & (0 <= t[base]) & (t[base] < v) & (0 <= t[base + 1]) & (t[base + 1] <= b)
        for j in range(b):
            s = t[base + 2 + j]
            ok = ok & (0 <= s) & (s < v + nt) & ((j < t[base + 1]) | (s == 0))
        ok = ok & ((i < p_used) | ((t[base] == 0) & (t[base + 1] == 0)))
        if i + 1 < maxp:
            less = False
            for k in range(stride - 1, -1, -1):
                x, y = t[base + k], t[base + stride + k]
                less = (x < y) | ((x == y) & less)
            ok = ok & ((i + 1 >= p_used) | less)
    return ok


WORDS = words_upto(3)
NONEMPTY_WORDS = [w for w in WORDS if w]


# ----------------------------------------------------------------------------------------
# observing one parse

def observe(parse, word):
    """Run one parser call (traced library code); for a returned tree also both derivation listings.
    -> (word, guarded result, plain tree | ('not_a_tree', msg) | None, leftmost res, rightmost res)"""
    res = chx.guarded(parse, list(word))
    if res[0] != "ok":
        return (word, res, None, None, None)
    tree = res[1]
    with chx.NT():
        try:
            plain = OT.tree_to_plain(tree)
        except OT.NotATree as exc:
            plain = ("not_a_tree", str(exc))
    if plain[0] == "not_a_tree":
        return (word, res, plain, None, None)
    left = chx.guarded(tree.get_leftmost_derivation)
    right = chx.guarded(tree.get_rightmost_derivation)
    return (word, res, plain, left, right)


def grammar_tags(g):
    tags = []
    if OC.has_epsilon_production(g):
        tags.append("has_epsilon_production")
    return tags


def judge_parse(parser, op, item, g, start, lang, documented, member_must_parse, extra_tags=()):
    """Failures of one observed parse. g/start: the grammar the tree must be a derivation tree of."""
    word, res, plain, left, right = item
    member = tuple(word) in lang
    base = {"parser": parser, "word": list(word), "member": member}
    wtag = "member" if member else "nonmember"
    tags = sorted(set(extra_tags) | {wtag})
    fails = []
    if res[0] == "exc":
        if res[1] == documented:
            if member and member_must_parse:
                fails.append(dict(base, kind="verdict", op=op, tags=tags,
                                  detail="member %r refused with %s" % (list(word), documented)))
        else:
            fails.append(chx.exc_failure(op, res, tags=tags, **base))
        return fails
    if not member:
        fails.append(dict(base, kind="verdict", op=op, tags=tags,
                          detail="a tree is returned for the non-member %r (documented: %s)" % (
                              list(word), documented)))
    if plain[0] == "not_a_tree":
        fails.append(dict(base, kind="tree", op=op, tags=tags, detail="not a finite tree: " + plain[1]))
        return fails
    if g is None:
        return fails
    problems = OT.check_tree(plain, g, start, word)
    if problems:
        fails.append(dict(base, kind="tree", op=op, tags=tags, tree=OT.show(plain),
                          detail="; ".join(problems[:4])))
        return fails
    ttags = sorted(set(tags) | set(OT.tree_tags(plain)))
    for dop, dres, leftmost in (("get_leftmost_derivation", left, True),
                                ("get_rightmost_derivation", right, False)):
        if dres[0] == "exc":
            fails.append(chx.exc_failure(dop, dres, tags=ttags, tree=OT.show(plain), **base))
            continue
        try:
            steps = [OT.plain_form(f) for f in dres[1]]
        except TypeError:
            fails.append(dict(base, kind="derivation", op=dop, tags=ttags, tree=OT.show(plain),
                              detail="not a list of sentential forms: %r" % (dres[1],)))
            continue
        problems = OT.check_derivation(steps, g, start, word, leftmost)
        if problems:
            fails.append(dict(base, kind="derivation", op=dop, tags=ttags, tree=OT.show(plain),
                              listed=[OT.fmt(s) for s in steps], detail="; ".join(problems[:3])))
    return fails


def nontrivial(g, lang):
    """The grammar has a member and a non-member among the words of length <= 3."""
    return 0 < len(lang) < len(WORDS)


# ----------------------------------------------------------------------------------------
# get_cnf_parse_tree (CYK on the normal form)

def _cnf_oracle(args, obs):
    prods, v, words = args
    g = enc.ref_cfg(prods, v)
    lang = OC.words_upto(g, 3)
    items, nfres = obs
    fails = []
    nfg = None
    if nfres[0] == "exc":
        fails.append(chx.exc_failure("to_normal_form", nfres, tags=grammar_tags(g)))
    else:
        nfg = OC.extract(nfres[1])
    for item in items:
        fails += judge_parse("cnf", "get_cnf_parse_tree", item, nfg, nfg.start if nfg else g.start, lang,
                             "DerivationDoesNotExist", True, grammar_tags(g))
    return nontrivial(g, lang), fails, dict(g.describe(), members=sorted(map(list, lang)))


def _cnf(cond, raw, prods, v):
    chx.enter(cond, raw)
    cfg = enc.build_cfg(prods, v)
    items = [observe(cfg.get_cnf_parse_tree, w) for w in NONEMPTY_WORDS]
    nfres = chx.guarded(cfg.to_normal_form)
    return chx.judge("C15", cond, raw, (prods, v, NONEMPTY_WORDS), (items, nfres), _cnf_oracle,
                     realize_obs=False)


def c15_cnf(t: T12, p: int) -> bool:
    """
    pre: pinned(p=p, t0=t[0], t1=t[1], t2=t[2], t3=t[3], t4=t[4], t5=t[5], t6=t[6], t7=t[7], t8=t[8], t9=t[9], t10=t[10])
    pre: canon(t, p, 2, 2, 2)
    post: _
    """
    prods = enc.decode_cfg(t, p, 2, 2, 2)
    return _cnf("c15_cnf", (t, p), prods, 2)


def c15_cnf_v3(t: T16, p: int) -> bool:
    """
    pre: pinned(p=p, t0=t[0], t1=t[1], t2=t[2], t3=t[3], t4=t[4], t5=t[5], t6=t[6], t8=t[8], t9=t[9], t10=t[10], t12=t[12], t13=t[13], t14=t[14])
    pre: canon(t, p, 3, 2, 2)
    post: _
    """
    prods = enc.decode_cfg(t, p, 3, 2, 2)
    return _cnf("c15_cnf_v3", (t, p), prods, 3)


def c15_cnf_b3(t: T15, p: int) -> bool:
    """
    pre: pinned(p=p, t0=t[0], t1=t[1], t2=t[2], t3=t[3], t4=t[4], t5=t[5], t6=t[6], t7=t[7], t8=t[8], t10=t[10], t11=t[11])
    pre: canon(t, p, 2, 2, 3)
    post: _
    """
    prods = enc.decode_cfg(t, p, 2, 2, 3)
    return _cnf("c15_cnf_b3", (t, p), prods, 2)


# ----------------------------------------------------------------------------------------
# LLOneParser.get_llone_parse_tree

def _llone_oracle(args, obs):
    prods, v, words = args
    g = enc.ref_cfg(prods, v)
    lang = OC.words_upto(g, 3)
    fails = []
    for item in obs:
        word = item[0]
        extra = grammar_tags(g)
        if any(tuple(word[:k]) in lang for k in range(len(word))):
            extra.append("proper_prefix_is_member")
        fails += judge_parse("llone", "get_llone_parse_tree", item, g, g.start, lang,
                             "NotParsableException", False, extra)
    return nontrivial(g, lang), fails, dict(g.describe(), members=sorted(map(list, lang)))


def llone_in_scope(prods, v):
    with chx.NT():
        g = enc.ref_cfg(prods, v)
        return OC.is_ll1(g) and not OC.useless_symbols_present(g)


def _llone(cond, raw, prods, v):
    if not llone_in_scope(prods, v):
        return chx.assumed_away(cond)
    chx.enter(cond, raw)
    cfg = enc.build_cfg(prods, v)
    parser = LLOneParser(cfg)
    items = [observe(parser.get_llone_parse_tree, w) for w in WORDS]
    return chx.judge("C15", cond, raw, (prods, v, WORDS), items, _llone_oracle, realize_obs=False)


def c15_llone(t: T12, p: int) -> bool:
    """
    pre: pinned(p=p, t0=t[0], t1=t[1], t2=t[2], t3=t[3], t4=t[4], t5=t[5], t6=t[6], t7=t[7], t8=t[8], t9=t[9], t10=t[10])
    pre: canon(t, p, 2, 2, 2)
    post: _
    """
    prods = enc.decode_cfg(t, p, 2, 2, 2)
    return _llone("c15_llone", (t, p), prods, 2)


def c15_llone_v3(t: T16, p: int) -> bool:
    """
    pre: pinned(p=p, t0=t[0], t1=t[1], t2=t[2], t3=t[3], t4=t[4], t5=t[5], t6=t[6], t8=t[8], t9=t[9], t10=t[10], t12=t[12], t13=t[13], t14=t[14])
    pre: canon(t, p, 3, 2, 2)
    post: _
    """
    prods = enc.decode_cfg(t, p, 3, 2, 2)
    return _llone("c15_llone_v3", (t, p), prods, 3)


def c15_llone_b3(t: T15, p: int) -> bool:
    """
    pre: pinned(p=p, t0=t[0], t1=t[1], t2=t[2], t3=t[3], t4=t[4], t5=t[5], t6=t[6], t7=t[7], t8=t[8], t10=t[10], t11=t[11])
    pre: canon(t, p, 2, 2, 3)
    post: _
    """
    prods = enc.decode_cfg(t, p, 2, 2, 3)
    return _llone("c15_llone_b3", (t, p), prods, 2)


# ----------------------------------------------------------------------------------------
# RecursiveDecentParser.get_parse_tree(word, left)

def _edge_cycle(edges):
    """Is there a cycle in the directed graph given as a set of (x, y)?"""
    succ = {}
    for x, y in edges:
        succ.setdefault(x, set()).add(y)
    for x0 in succ:
        seen = set()
        todo = list(succ[x0])
        while todo:
            x = todo.pop()
            if x == x0:
                return True
            if x in seen:
                continue
            seen.add(x)
            todo.extend(succ.get(x, ()))
    return False


def recursive_in_scope(g, left):
    """Documented termination of the recursive-descent parser (docstring of `is_parsable`:
    "not guaranteed to terminate with left/right recursive grammars"; test_infinite_recursion uses the
    left-recursive `S -> S E` and expects RecursionError with left=True and an answer with left=False):
    no epsilon production, and no left recursion when expanding from the left / no right recursion when
    expanding from the right. Without epsilon productions X is left-recursive iff it lies on a cycle of
    the relation "Y is the first symbol of a body of X" (last symbol for right recursion); unit cycles
    are such cycles."""
    if OC.has_epsilon_production(g):
        return False
    edges = set()
    for h, b in g.prods:
        s = b[0] if left else b[-1]
        if s[0] == "V":
            edges.add((h, s[1]))
    return not _edge_cycle(edges)


def _recursive_oracle(args, obs):
    prods, v, left, words = args
    g = enc.ref_cfg(prods, v)
    lang = OC.words_upto(g, 3)
    fails = []
    for item in obs:
        fails += judge_parse("recursive_left" if left else "recursive_right",
                             "RecursiveDecentParser.get_parse_tree", item, g, g.start, lang,
                             "NotParsableException", False, grammar_tags(g))
    return nontrivial(g, lang), fails, dict(g.describe(), left=left, members=sorted(map(list, lang)))


def _recursive(cond, raw, prods, v, left):
    lf = enc.flag(left)
    with chx.NT():
        ok = recursive_in_scope(enc.ref_cfg(prods, v), lf)
    if not ok:
        return chx.assumed_away(cond)
    chx.enter(cond, raw)
    cfg = enc.build_cfg(prods, v)
    parser = RecursiveDecentParser(cfg)
    items = [observe(lambda w: parser.get_parse_tree(w, lf), w) for w in WORDS]
    return chx.judge("C15", cond, raw, (prods, v, lf, WORDS), items, _recursive_oracle, realize_obs=False)


def c15_recursive(t: T12, p: int, left: bool) -> bool:
    """
    pre: pinned(p=p, left=left, t0=t[0], t1=t[1], t2=t[2], t3=t[3], t4=t[4], t5=t[5], t6=t[6], t7=t[7], t8=t[8], t9=t[9], t10=t[10])
    pre: canon(t, p, 2, 2, 2)
    post: _
    """
    prods = enc.decode_cfg(t, p, 2, 2, 2)
    return _recursive("c15_recursive", (t, p, left), prods, 2, left)


def c15_recursive_v3(t: T16, p: int, left: bool) -> bool:
    """
    pre: pinned(p=p, left=left, t0=t[0], t1=t[1], t2=t[2], t3=t[3], t4=t[4], t5=t[5], t6=t[6], t8=t[8], t9=t[9], t10=t[10], t12=t[12], t13=t[13], t14=t[14])
    pre: canon(t, p, 3, 2, 2)
    post: _
    """
    prods = enc.decode_cfg(t, p, 3, 2, 2)
    return _recursive("c15_recursive_v3", (t, p, left), prods, 3, left)


def c15_recursive_b3(t: T15, p: int, left: bool) -> bool:
    """
    pre: pinned(p=p, left=left, t0=t[0], t1=t[1], t2=t[2], t3=t[3], t4=t[4], t5=t[5], t6=t[6], t7=t[7], t8=t[8], t10=t[10], t11=t[11])
    pre: canon(t, p, 2, 2, 3)
    post: _
    """
    prods = enc.decode_cfg(t, p, 2, 2, 3)
    return _recursive("c15_recursive_b3", (t, p, left), prods, 2, left)


# ----------------------------------------------------------------------------------------
# FCFG.get_parse_tree (Earley), feature-free grammars

def build_fcfg(prods, v, start="S"):
    """Feature-free FCFG through the public constructors (as in pyformlang/fcfg/tests/test_fcfg.py):
    every head / body element carries an empty FeatureStructure."""
    ps = []
    for h, body in prods:
        objs = [Variable(enc.VARS[c]) if c < v else Terminal(enc.TERMS[c - v]) for c in body]
        ps.append(FeatureProduction(Variable(enc.VARS[h]), objs, FeatureStructure(),
                                    [FeatureStructure() for _ in objs]))
    return FCFG(start_symbol=Variable(start), productions=ps)


def _fcfg_oracle(args, obs):
    prods, v, words = args
    g = enc.ref_cfg(prods, v)
    lang = OC.words_upto(g, 3)
    fails = []
    for item in obs:
        extra = grammar_tags(g) + OT.earley_tags(g, item[0])
        fails += judge_parse("fcfg", "FCFG.get_parse_tree", item, g, g.start, lang,
                             "NotParsableException", False, extra)
    return nontrivial(g, lang), fails, dict(g.describe(), members=sorted(map(list, lang)))


def _fcfg(cond, raw, prods, v):
    chx.enter(cond, raw)
    fcfg = build_fcfg(prods, v)
    items = [observe(fcfg.get_parse_tree, w) for w in WORDS]
    return chx.judge("C15", cond, raw, (prods, v, WORDS), items, _fcfg_oracle, realize_obs=False)


def c15_fcfg(t: T12, p: int) -> bool:
    """
    pre: pinned(p=p, t0=t[0], t1=t[1], t2=t[2], t3=t[3], t4=t[4], t5=t[5], t6=t[6], t7=t[7], t8=t[8], t9=t[9], t10=t[10])
    pre: canon(t, p, 2, 2, 2)
    post: _
    """
    prods = enc.decode_cfg(t, p, 2, 2, 2)
    return _fcfg("c15_fcfg", (t, p), prods, 2)


def c15_fcfg_v3(t: T16, p: int) -> bool:
    """
    pre: pinned(p=p, t0=t[0], t1=t[1], t2=t[2], t3=t[3], t4=t[4], t5=t[5], t6=t[6], t8=t[8], t9=t[9], t10=t[10], t12=t[12], t13=t[13], t14=t[14])
    pre: canon(t, p, 3, 2, 2)
    post: _
    """
    prods = enc.decode_cfg(t, p, 3, 2, 2)
    return _fcfg("c15_fcfg_v3", (t, p), prods, 3)


def c15_fcfg_b3(t: T15, p: int) -> bool:
    """
    pre: pinned(p=p, t0=t[0], t1=t[1], t2=t[2], t3=t[3], t4=t[4], t5=t[5], t6=t[6], t7=t[7], t8=t[8], t10=t[10], t11=t[11])
    pre: canon(t, p, 2, 2, 3)
    post: _
    """
    prods = enc.decode_cfg(t, p, 2, 2, 3)
    return _fcfg("c15_fcfg_b3", (t, p), prods, 2)


# ----------------------------------------------------------------------------------------
# shards: the canonical grammars of a (sub-)family are enumerated natively, weighted by a measured cost
# per path, and split along the pin keys until a shard is below the target

def enum_canonical(v, nt, b, maxp, fixed):
    """All canonical (t, p) of CFG(maxp, v, nt, b) that agree with the pins `fixed` ({'p':..,'t3':..})."""
    stride = 2 + b
    plist = []
    for h in range(v):
        for ln in range(b + 1):
            bodies = [()]
            for _ in range(ln):
                bodies = [x + (c,) for x in bodies for c in range(v + nt)]
            for body in bodies:
                plist.append((h, ln) + body + (0,) * (b - ln))
    plist.sort()
    zero = (0,) * stride

    def slot_ok(i, prod):
        for j in range(stride):
            want = fixed.get("t%d" % (i * stride + j))
            if want is not None and want != prod[j]:
                return False
        return True

    out = []
    ps = [fixed["p"]] if "p" in fixed else list(range(maxp + 1))

    def rec(p, i, first, acc):
        if i == maxp:
            out.append((tuple(x for pr in acc for x in pr), p))
            return
        if i >= p:
            if slot_ok(i, zero):
                rec(p, i + 1, first, acc + [zero])
            return
        for k in range(first, len(plist)):
            if slot_ok(i, plist[k]):
                rec(p, i + 1, k + 1, acc + [plist[k]])

    for p in ps:
        rec(p, 0, 0, [])
    return out


def plan(family, fixed_list, cost, target, keys, extra=None):
    """Pin dicts partitioning the grammars selected by the pin dicts of fixed_list (pairwise disjoint),
    each of estimated cost <= target where the keys allow it. extra: {'left': [True, False]}."""
    v, nt, b, maxp = family
    shards = []

    def split(pin, items, ks):
        total = sum(cost(t, p, pin) for t, p in items)
        if total <= target or not ks:
            shards.append((total, pin))
            return
        k = ks[0]
        groups = {}
        for t, p in items:
            val = p if k == "p" else t[int(k[1:])]
            groups.setdefault(val, []).append((t, p))
        if len(groups) == 1:
            split(pin, items, ks[1:])
            return
        for val in sorted(groups):
            split(dict(pin, **{k: val}), groups[val], ks[1:])

    for fixed in fixed_list:
        items = enum_canonical(v, nt, b, maxp, fixed)
        if not items:
            continue
        for ex in ([{}] if not extra else [dict(zip(extra, vals)) for vals in _product(list(extra.values()))]):
            split(dict(fixed, **ex), items, [k for k in keys if k not in fixed])
    shards.sort(key=lambda x: -x[0])          # heavy shards first
    return [pin for _, pin in shards]


def _product(lists):
    out = [()]
    for lst in lists:
        out = [x + (y,) for x in out for y in lst]
    return out


BASE = (2, 2, 2, 3)
V3 = (3, 2, 2, 4)
B3 = (2, 2, 3, 3)
KEYS_BASE = ["p", "t0", "t1", "t2", "t3", "t4", "t5", "t6", "t7", "t8", "t9", "t10"]
KEYS_V3 = ["p", "t0", "t1", "t2", "t3", "t4", "t5", "t6", "t8", "t9", "t10", "t12", "t13", "t14"]
KEYS_B3 = ["p", "t0", "t1", "t2", "t3", "t4", "t5", "t6", "t7", "t8", "t10", "t11"]

# sub-families (pin dicts; see the bound texts)
P_LE2 = [{"p": 0}, {"p": 1}, {"p": 2}]
Q_P3 = [{"p": 3, "t0": 0, "t1": 2, "t2": 1, "t3": 1, "t4": 1}]                 # S -> A A, A -> x | y
T_P3 = [{"p": 3, "t0": 0, "t1": 2, "t2": 0, "t3": 0}, {"p": 3, "t0": 0, "t1": 2, "t2": 1}]   # least: S -> S S | S -> A X
F_B3 = [{"p": 2, "t0": 0, "t1": 3, "t2": 1, "t3": 2, "t5": 1}]                 # S -> A a X, A -> body of <= 3
F_V3 = [{"p": 4, "t0": 0, "t1": 2, "t2": 1, "t3": 2, "t4": 1, "t5": 1, "t6": 3, "t8": 2, "t12": 2}]  # S->A B, A->a, B->x|y

TARGET = {"quick": 60.0, "thorough": 200.0}
LIMITS = dict(per_path_timeout=600.0, shard_timeout={"quick": 1800, "thorough": 7200})


def _ref(t, p, fam):
    v, nt, b, _ = fam
    stride = 2 + b
    prods = [(t[i * stride], [t[i * stride + 2 + j] for j in range(t[i * stride + 1])]) for i in range(p)]
    return enc.ref_cfg(prods, v)


def _cost_flat(c):
    return lambda t, p, pin: c


def _cost_llone(fam):
    def cost(t, p, pin):
        g = _ref(t, p, fam)
        return 7.5 if (OC.is_ll1(g) and not OC.useless_symbols_present(g)) else 0.08
    return cost


def _cost_recursive(fam):
    def cost(t, p, pin):
        return 0.55 if recursive_in_scope(_ref(t, p, fam), pin["left"]) else 0.08
    return cost


def _mk(fam, keys, quick_sets, thorough_sets, costfn, extra=None):
    def shards(tier):
        sets = quick_sets if tier == "quick" else thorough_sets
        return plan(fam, sets, costfn, TARGET[tier], keys, extra)
    return shards


LR = {"left": [True, False]}

BOUND_BASE = {
    "quick": "grammars over variables {S,A}, terminals {a,b}, start S, bodies of <=2 symbols (epsilon bodies "
             "included): ALL sets of <=2 productions (904) + all 210 grammars {S -> A A, A -> x, A -> y}; each "
             "against EVERY word of length <=3 over {a,b}%s",
    "thorough": "same universe: all sets of <=2 productions (904) + all 2432 sets of 3 productions whose least "
                "production (order head,length,symbols) is S -> S S or S -> A X (X any symbol); each against "
                "every word of length <=3 over {a,b}%s",
}
BOUND_LL = dict(BOUND_BASE, quick="grammars over variables {S,A}, terminals {a,b}, start S, bodies of <=2 symbols "
                "(epsilon bodies included): ALL sets of <=2 productions (904), each against EVERY word of "
                "length <=3 over {a,b}%s")
BOUND_B3 = {"thorough": "bodies of <=3 symbols: the 340 grammars {S -> A a X, A -> body of <=3 symbols over "
                        "{S,A,a,b}} (X one symbol) against every word of length <=3 over {a,b}%s"}
BOUND_V3 = {"thorough": "3 variables {S,A,B}, 4 productions: the 465 grammars {S -> A B, A -> a, B -> x, B -> y} "
                        "(x,y bodies of <=2 symbols over {S,A,B,a,b}) against every word of length <=3%s"}

CNF_NOTE = " (non-empty words only)"
LL_NOTE = "; only grammars the reference semantics finds LL(1) and free of useless symbols are judged"
RD_NOTE = "; left=True and left=False; only grammars on which the parser is documented to terminate are judged"

RULE = "the grammar has both a member and a non-member among the words of length <=3"

F_TREE = ["ParseTree.get_leftmost_derivation", "ParseTree.get_rightmost_derivation"]
F_CNF = ["CFG.get_cnf_parse_tree", "CFG.to_normal_form", "CYKTable.__init__", "CYKTable.get_parse_tree",
         "CYKNode.__init__"] + F_TREE
F_LL = ["LLOneParser.get_llone_parse_tree", "LLOneParser.get_llone_parsing_table", "LLOneParser.get_first_set",
        "LLOneParser.get_follow_set"] + F_TREE
F_RD = ["RecursiveDecentParser.get_parse_tree", "RecursiveDecentParser._get_parse_tree_sub",
        "RecursiveDecentParser._match"] + F_TREE
F_FC = ["FCFG.get_parse_tree", "FCFG._get_final_state", "_scanner", "_completer", "StateProcessed.add",
        "FeatureProduction.__init__"] + F_TREE

A_COMMON = ["C15 for get_cnf_parse_tree: trees are checked against O.extract(cfg.to_normal_form()) (the grammar "
            "being parsed); a non-empty member must get a tree; the documented refusal is DerivationDoesNotExist "
            "(pyformlang/cfg/tests/test_cfg.py)",
            "a Variable node without sons is the library's representation of X -> epsilon (Production drops "
            "Epsilon from bodies; ParseTree.get_*_derivation lists it as [X], []); an explicit epsilon leaf "
            "would be accepted as well",
            "refusals of MEMBERS by LLOneParser / RecursiveDecentParser / FCFG with their documented exception "
            "are not judged by C15 (C14 / C18)"]
A_RD = ["RecursiveDecentParser is judged only where it is documented to terminate: no epsilon production and, "
        "expanding from the left (left=True), no left recursion / from the right (left=False), no right "
        "recursion (docstring of is_parsable + test_infinite_recursion); unit cycles are both; everything else "
        "is assumed away"]
A_LL = ["LLOneParser is judged only on grammars that the textbook predict-set test finds LL(1) and that have no "
        "useless symbol; the rest is assumed away"]


def _b(d, note):
    return {k: v % note for k, v in d.items()}


CONDS = [
    Cond("C15", c15_llone, _mk(BASE, KEYS_BASE, P_LE2, P_LE2 + T_P3, _cost_llone(BASE)),
         _b(BOUND_LL, LL_NOTE), F_LL, RULE, assumptions=A_COMMON + A_LL, **LIMITS),
    Cond("C15", c15_cnf, _mk(BASE, KEYS_BASE, P_LE2 + Q_P3, P_LE2 + T_P3, _cost_flat(0.9)),
         _b(BOUND_BASE, CNF_NOTE), F_CNF, RULE, assumptions=A_COMMON, **LIMITS),
    Cond("C15", c15_fcfg, _mk(BASE, KEYS_BASE, P_LE2 + Q_P3, P_LE2 + T_P3, _cost_flat(0.65)),
         _b(BOUND_BASE, ""), F_FC, RULE, assumptions=A_COMMON, **LIMITS),
    Cond("C15", c15_recursive, _mk(BASE, KEYS_BASE, P_LE2 + Q_P3, P_LE2 + T_P3, _cost_recursive(BASE), LR),
         _b(BOUND_BASE, RD_NOTE), F_RD, RULE, assumptions=A_COMMON + A_RD, **LIMITS),
    Cond("C15", c15_llone_b3, _mk(B3, KEYS_B3, [], F_B3, _cost_llone(B3)),
         _b(BOUND_B3, LL_NOTE), F_LL, RULE, tiers=("thorough",), assumptions=A_COMMON + A_LL, **LIMITS),
    Cond("C15", c15_cnf_b3, _mk(B3, KEYS_B3, [], F_B3, _cost_flat(0.8)),
         _b(BOUND_B3, CNF_NOTE), F_CNF, RULE, tiers=("thorough",), assumptions=A_COMMON, **LIMITS),
    Cond("C15", c15_fcfg_b3, _mk(B3, KEYS_B3, [], F_B3, _cost_flat(0.8)),
         _b(BOUND_B3, ""), F_FC, RULE, tiers=("thorough",), assumptions=A_COMMON, **LIMITS),
    Cond("C15", c15_recursive_b3, _mk(B3, KEYS_B3, [], F_B3, _cost_recursive(B3), LR),
         _b(BOUND_B3, RD_NOTE), F_RD, RULE, tiers=("thorough",), assumptions=A_COMMON + A_RD, **LIMITS),
    Cond("C15", c15_llone_v3, _mk(V3, KEYS_V3, [], F_V3, _cost_llone(V3)),
         _b(BOUND_V3, LL_NOTE), F_LL, RULE, tiers=("thorough",), assumptions=A_COMMON + A_LL, **LIMITS),
    Cond("C15", c15_cnf_v3, _mk(V3, KEYS_V3, [], F_V3, _cost_flat(0.9)),
         _b(BOUND_V3, CNF_NOTE), F_CNF, RULE, tiers=("thorough",), assumptions=A_COMMON, **LIMITS),
    Cond("C15", c15_fcfg_v3, _mk(V3, KEYS_V3, [], F_V3, _cost_flat(0.9)),
         _b(BOUND_V3, ""), F_FC, RULE, tiers=("thorough",), assumptions=A_COMMON, **LIMITS),
    Cond("C15", c15_recursive_v3, _mk(V3, KEYS_V3, [], F_V3, _cost_recursive(V3), LR),
         _b(BOUND_V3, RD_NOTE), F_RD, RULE, tiers=("thorough",), assumptions=A_COMMON + A_RD, **LIMITS),
]
