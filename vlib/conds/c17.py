"""C17 — indexed-grammar emptiness: is_empty()/bool() = derivability from start[empty stack]; the verdict
does not depend on the rule order nor on the ordering heuristic (optim 0-8); remove_useless_rules()
keeps it; the intersection with a regular language is empty iff no derivable word is accepted.

Encoding IG(r): a family index `fam` (variables / index symbols / terminals in use, see FAMILIES) and r
rule codes, each a small int into the family's rule table RULESET[fam] (every end / production /
consumption / duplication rule over the family's symbols, in lexicographic order of
(left variable, kind, y, z)), decoded through the table:
    kind 0  end   left -> TERMS[y]
    kind 1  prod  left[s]   -> VARS[y][IDX[z] s]
    kind 2  cons  left[IDX[z] s] -> VARS[y][s]
    kind 3  dup   left[s]   -> VARS[y][s] VARS[z][s]
The used codes are non-decreasing (a multiset of rules: duplicates are inside the family) and a separate
symbolic permutation index gives the order in which the rules are handed to `Rules`. `ng`/`grp` only
split the family into shards of equal size (sum of the codes modulo ng).
"""
from typing import Tuple

from vlib import chx, enc
from vlib.chx import pinned
from vlib.oracles import ig as O
from vlib.oracles import nfa as ONFA
from vlib.registry import Cond, product_pins

chx.warm_networkx()


def _native_sets():
    """DESIGN 2.7 contingency, applied in this property's worker processes only: un-register CrossHair's
    substitutes for the `set` / `frozenset` constructors. Every value that reaches the library here is a
    concrete label (table decoding), so its sets can be CPython's own: the traced run then iterates sets
    exactly like the native replay does, and `Rules.non_terminals` / the marked sets of `is_empty` stop
    being nested lazy set models (measured on c17_inter: 2.8 s -> 0.48 s per path)."""
    try:
        import crosshair.core_and_libs  # noqa: F401  (makes the registrations)
        from crosshair import core as _core
    except Exception:  # replay without CrossHair
        return
    for entity in (set, frozenset, dict):
        _core._PATCH_REGISTRATIONS.pop(entity, None)


def _no_subcontract_enforcement():
    """CrossHair's EnforcedConditions tracer intercepts EVERY call made by traced code to look for a
    PEP316 contract on the callee (and routes every class instantiation through
    enforce.manual_constructor). The only contract in this analysis is the harness function's own, which
    CrossHair's attempt_call checks itself; pyformlang, networkx and the helpers carry none. Measured on
    c17_inter: 0.336 s of library time per path with the tracer, 0.011 s without (same paths, same
    verdicts), so the tracer's hook is neutralised in this property's worker processes."""
    try:
        from crosshair import enforce as _enforce
    except Exception:  # replay without CrossHair
        return
    _enforce.EnforcedConditions.trace_call = lambda self, frame, fn, binding_target: None


_native_sets()
_no_subcontract_enforcement()

from pyformlang.indexed_grammar import (Rules, IndexedGrammar, EndRule, ProductionRule,   # noqa: E402
                                        ConsumptionRule, DuplicationRule)
from pyformlang.indexed_grammar import rule_ordering as _rule_ordering                      # noqa: E402
from pyformlang.finite_automaton import DeterministicFiniteAutomaton                        # noqa: E402
# IndexedGrammar.intersection looks up `pyformlang.regular_expression` as an attribute of the package
# without importing it (AttributeError in a process that never imported it); the library's own tests
# import it first, so does the harness (listed in `assumptions`).
import pyformlang.regular_expression                                                        # noqa: E402,F401

VARS = ["S", "A", "B"]
IDX = ["f", "g"]
TERMS = ["a", "epsilon"]
KINDS = ["end", "prod", "cons", "dup"]
FACT = [1, 1, 2, 6, 24]
NG_MAX = 64

# (number of variables, of index symbols, of terminals)
FAMILIES = [(2, 1, 1), (2, 2, 1), (3, 1, 1), (3, 2, 1), (2, 1, 2), (3, 2, 2)]


def _ruleset(nv, ni, nt):
    out = []
    for x in range(nv):
        for y in range(nt):
            out.append((x, 0, y, 0))
        for k in (1, 2):
            for y in range(nv):
                for z in range(ni):
                    out.append((x, k, y, z))
        for y in range(nv):
            for z in range(nv):
                out.append((x, 3, y, z))
    return out


def _label(code):
    x, k, y, z = code
    if k == 0:
        return ("end", VARS[x], TERMS[y])
    if k == 1:
        return ("prod", VARS[x], VARS[y], IDX[z])
    if k == 2:
        return ("cons", IDX[z], VARS[x], VARS[y])
    return ("dup", VARS[x], VARS[y], VARS[z])


RULESET = [[_label(c) for c in _ruleset(*f)] for f in FAMILIES]
NR = [len(r) for r in RULESET]          # 18, 26, 48, 66, 20, 69


# ----------------------------------------------------------------------------------------
# environment stub: random.shuffle in rule_ordering.order_random (optim 8)

class _ShuffleStub:
    """Stands for the `random` module inside pyformlang.indexed_grammar.rule_ordering (harness process
    only): shuffle(list) applies the permutation chosen by the harness' symbolic index `shuf`."""

    def __init__(self):
        self.order = None

    def shuffle(self, items):
        if self.order is None:
            raise RuntimeError("shuffle stub used without an order")
        n = len(items)
        new = [items[i] for i in self.order if i < n]
        items[:] = new


_STUB = _ShuffleStub()
_rule_ordering.random = _STUB


# ----------------------------------------------------------------------------------------
# preconditions (the bound)

def family_ok(fam, c, m, ng, grp):
    """fam names a family; the first m codes are rule codes of that family in non-decreasing order, the
    others are zero; grp is the shard group of the code tuple (sum of the codes modulo ng).

    Written with & and | only: the whole predicate is ONE symbolic boolean (`and`/`or` fork: measured 40
    wasted paths per input). When the shard pins fam / m / ng (it always does) the predicate is
    specialised to the pinned values -- same meaning under the `pinned(...)` line evaluated before it,
    four times fewer solver terms per path."""
    n = len(c)
    pf, pm, pg = chx.PIN.get("fam"), chx.PIN.get("m"), chx.PIN.get("ng")
    if isinstance(pf, int) and isinstance(pm, int) and isinstance(pg, int) \
            and 0 <= pf < len(NR) and 0 <= pm <= n and 1 <= pg <= NG_MAX:
        ok = (fam == pf) & (m == pm) & (ng == pg) & (0 <= grp) & (grp < pg)
        total = 0
        for i in range(n):
            if i < pm:
                total = total + c[i]
                if i == 0:
                    ok = ok & (0 <= c[i])
                else:
                    ok = ok & (c[i - 1] <= c[i])
                if i == pm - 1:
                    ok = ok & (c[i] < NR[pf])
            else:
                ok = ok & (c[i] == 0)
        if pg > 1:
            ok = ok & (total % pg == grp)
        return ok
    ok = (0 <= fam) & (fam < len(NR)) & (0 <= m) & (m <= n)
    bound = (fam != fam)
    total = 0
    for i in range(n):
        total = total + c[i]
    for f in range(len(NR)):
        inside = (fam == f)
        for i in range(n):
            inside = inside & (c[i] < NR[f])
        bound = bound | inside
    ok = ok & bound
    for i in range(n):
        ok = ok & (0 <= c[i]) & ((i < m) | (c[i] == 0))
        if i + 1 < n:
            ok = ok & ((i + 1 >= m) | (c[i] <= c[i + 1]))
    ok = ok & (1 <= ng) & (ng <= NG_MAX) & (0 <= grp) & (grp < ng) & (total % ng == grp)
    return ok


def index_ok(i, m):
    """0 <= i < m! (m <= 4)"""
    pm = chx.PIN.get("m")
    if isinstance(pm, int) and 0 <= pm <= 4:
        return (m == pm) & (0 <= i) & (i < FACT[pm])
    return (0 <= i) & (((m <= 1) & (i < 1)) | ((m == 2) & (i < 2)) | ((m == 3) & (i < 6)) | ((m == 4) & (i < 24)))


def between(lo, x, hi):
    """lo <= x <= hi as one symbolic boolean"""
    return (lo <= x) & (x <= hi)


# ----------------------------------------------------------------------------------------
# decoding / building through the public constructors

def pick_bin(x, n):
    """Concrete int in range(n) equal to the symbolic x (binary search: log2(n) forks)."""
    lo, hi = 0, n
    while hi - lo > 1:
        mid = (lo + hi) // 2
        if x < mid:
            hi = mid
        else:
            lo = mid
    return lo


def decode_rules(fam, c, m):
    """-> (family, m, rules as oracle tuples, concrete copy of c). The concrete copies (table look-ups;
    zeros for the unused codes, which the precondition forces) go into `raw`: realising them costs no
    solver model query."""
    fm = enc.pick(fam, len(NR))
    mm = enc.pick(m, len(c) + 1)
    cc = []
    for i in range(mm):
        cc.append(pick_bin(c[i], NR[fm]))
    rules = [RULESET[fm][v] for v in cc]
    cc += [0] * (len(c) - mm)
    return fm, mm, rules, tuple(cc)


def lib_rule(r):
    k = r[0]
    if k == "end":
        return EndRule(r[1], r[2])
    if k == "prod":
        return ProductionRule(r[1], r[2], r[3])
    if k == "cons":
        return ConsumptionRule(r[1], r[2], r[3])
    return DuplicationRule(r[1], r[2], r[3])


def make_grammar(rules, optim):
    return IndexedGrammar(Rules([lib_rule(r) for r in rules], optim))


# ----------------------------------------------------------------------------------------
# input-class tags (known-finding matching only; they never change a verdict)

def input_tags(rules, optim):
    tags = []
    if optim in (4, 5):
        tags.append("optim_4_or_5")
    cons = [r for r in rules if r[0] == "cons"]
    if len(cons) != len(set(cons)):
        tags.append("duplicate_consumption_rule")
    pushed = {r[3] for r in rules if r[0] == "prod"}
    heads = set()
    for r in set(cons):
        if r[1] in pushed:
            if (r[1], r[2]) in heads:
                if "two_consumptions_same_index_var_pushed" not in tags:
                    tags.append("two_consumptions_same_index_var_pushed")
            heads.add((r[1], r[2]))
    return tags


def verdict_failure(op, got_empty, want_empty, tags):
    extra = ["false_nonempty"] if (want_empty and not got_empty) else ["false_empty"]
    return {"kind": "verdict", "op": op, "tags": tags + extra,
            "detail": "library says %s, reference says %s" % (
                "empty" if got_empty else "non-empty", "empty" if want_empty else "non-empty")}


def nontrivial_grammar(rules):
    """an end rule, a rule with S on the left, and at least one stack rule or duplication"""
    has_end = any(r[0] == "end" for r in rules)
    s_left = any((r[2] if r[0] == "cons" else r[1]) == "S" for r in rules)
    other = any(r[0] != "end" for r in rules)
    return has_end and s_left and other


# ----------------------------------------------------------------------------------------
# is_empty / bool / remove_useless_rules

def _verdict_oracle(args, obs):
    rules, order, optim, shuf = args
    tags = input_tags(rules, optim)
    want = O.is_empty(rules, "S")
    fails = []
    for op, res in obs:
        if res[0] == "exc":
            fails.append(chx.exc_failure(op, res, tags=tags))
            continue
        val = res[1]
        if op == "is_empty":
            e1, b, e2 = val
            if not isinstance(e1, bool) or not isinstance(b, bool) or not isinstance(e2, bool):
                fails.append({"kind": "shape", "op": op, "tags": tags,
                              "detail": "non-bool verdicts %r" % ((e1, b, e2),)})
                continue
            if e1 != want:
                fails.append(verdict_failure("is_empty", e1, want, tags))
            if (not b) != want:
                fails.append(verdict_failure("bool", not b, want, tags))
            if e2 != want:
                fails.append(verdict_failure("is_empty(second call)", e2, want, tags))
        elif op == "remove_useless_rules":
            got_empty, grammar = val
            if got_empty != want:
                fails.append(verdict_failure("remove_useless_rules.is_empty", bool(got_empty), want, tags))
            rr, start = O.extract(grammar)
            if O.is_empty(rr, start) != want:
                fails.append({"kind": "language", "op": "remove_useless_rules.rules", "tags": tags,
                              "detail": "rules of the returned grammar %r (start %r) are %s, the grammar was %s"
                                        % (rr, start, "non-empty" if want else "empty",
                                           "empty" if want else "non-empty")})
    note = {"rules_in_order": [rules[i] for i in order], "optim": optim, "shuffle": shuf,
            "reference_empty": want}
    return nontrivial_grammar(rules), fails, note


def _run_is_empty(ordered, optim):
    g = make_grammar(ordered, optim)
    e1 = g.is_empty()
    b = bool(g)
    e2 = g.is_empty()
    return (e1, b, e2)


def _run_useless(ordered, optim):
    g = make_grammar(ordered, optim)
    u = g.remove_useless_rules()
    return (u.is_empty(), u)


C4 = Tuple[int, int, int, int]


def c17_verdict(fam: int, m: int, c: C4, perm: int, optim: int, shuf: int, ng: int, grp: int) -> bool:
    """
    pre: pinned(fam=fam, m=m, perm=perm, optim=optim, shuf=shuf, ng=ng, grp=grp, c0=c[0], c1=c[1])
    pre: family_ok(fam, c, m, ng, grp)
    pre: between(0, optim, 8) & index_ok(perm, m) & index_ok(shuf, m) & ((optim == 8) | (shuf == 0))
    post: _
    """
    fm, mm, rules, cc = decode_rules(fam, c, m)
    pi = enc.pick(perm, FACT[mm])
    order = list(enc.PERMS[mm][pi])
    op = enc.pick(optim, 9)
    sh = enc.pick(shuf, FACT[mm])
    gn = pick_bin(ng, NG_MAX + 1)
    raw = (fm, mm, cc, pi, op, sh, gn, sum(cc) % gn)
    chx.enter("c17_verdict", raw)
    ordered = [rules[i] for i in order]
    _STUB.order = list(enc.PERMS[mm][sh]) if op == 8 else None
    obs = [("is_empty", chx.guarded(_run_is_empty, ordered, op)),
           ("remove_useless_rules", chx.guarded(_run_useless, ordered, op))]
    return chx.judge("C17", "c17_verdict", raw, (rules, order, op, sh), obs, _verdict_oracle,
                     realize_obs=False)


# ----------------------------------------------------------------------------------------
# intersection with a regular language: DFA(2,1)

def decode_dfa(d0, d1, start, finals):
    """delta(q, a) = none/0/1 for q = 0, 1; start none/state 0; final mask."""
    edges = []
    a0 = enc.pick(d0, 3)
    a1 = enc.pick(d1, 3)
    if a0 > 0:
        edges.append((0, "a", a0 - 1))
    if a1 > 0:
        edges.append((1, "a", a1 - 1))
    st = [0] if enc.pick(start, 2) == 1 else []
    fi = enc.mask_members(finals, 2)
    return edges, st, fi


def build_dfa(edges, st, fi):
    dfa = DeterministicFiniteAutomaton()
    for p, a, q in edges:
        dfa.add_transition(p, a, q)
    for q in st:
        dfa.add_start_state(q)
    for q in fi:
        dfa.add_final_state(q)
    return dfa


def ref_dfa(edges, st, fi):
    ref = ONFA.Ref(starts=st, finals=fi)
    for p, a, q in edges:
        ref.add(p, a, q)
    return ref


def _inter_oracle(args, obs):
    rules, order, optim, (edges, st, fi) = args
    tags = input_tags(rules, optim)
    ref = ref_dfa(edges, st, fi)
    want = O.intersection_is_empty(rules, ref, "S")
    fails = []
    res = obs
    if res[0] == "exc":
        fails.append(chx.exc_failure("intersection", res, tags=tags))
    else:
        got_empty, truth, grammar = res[1]
        if not isinstance(got_empty, bool) or not isinstance(truth, bool):
            fails.append({"kind": "shape", "op": "intersection.is_empty", "tags": tags,
                          "detail": "non-bool verdicts %r" % ((got_empty, truth),)})
        else:
            if got_empty != want:
                fails.append(verdict_failure("intersection.is_empty", got_empty, want, tags))
            if (not truth) != want:
                fails.append(verdict_failure("bool(intersection)", not truth, want, tags))
        rr, start = O.extract(grammar)
        if O.is_empty(rr, start) != want:
            fails.append({"kind": "language", "op": "intersection.rules", "tags": tags,
                          "detail": "rules of the returned grammar (%d rules, start %r) are %s, reference "
                                    "product is %s" % (len(rr), start, "non-empty" if want else "empty",
                                                       "empty" if want else "non-empty")})
    note = {"rules_in_order": [rules[i] for i in order], "optim": optim,
            "dfa": {"edges": edges, "start": st, "finals": fi}, "reference_intersection_empty": want,
            "reference_grammar_empty": O.is_empty(rules, "S")}
    nontrivial = nontrivial_grammar(rules) and bool(st) and bool(fi) and bool(edges)
    return nontrivial, fails, note


def _run_inter(ordered, optim, dfa):
    g = make_grammar(ordered, optim)
    inter = g.intersection(dfa)
    e = inter.is_empty()
    b = bool(inter)
    return (e, b, inter)


C3 = Tuple[int, int, int]


def c17_inter(fam: int, m: int, c: C3, perm: int, optim: int, d0: int, d1: int, start: int, finals: int,
              ng: int, grp: int) -> bool:
    """
    pre: pinned(fam=fam, m=m, perm=perm, optim=optim, d0=d0, d1=d1, start=start, finals=finals, ng=ng, grp=grp, c0=c[0], c1=c[1])
    pre: family_ok(fam, c, m, ng, grp)
    pre: between(0, optim, 7) & index_ok(perm, m)
    pre: between(0, d0, 2) & between(0, d1, 2) & between(0, start, 1) & between(0, finals, 3)
    post: _
    """
    fm, mm, rules, cc = decode_rules(fam, c, m)
    pi = enc.pick(perm, FACT[mm])
    order = list(enc.PERMS[mm][pi])
    op = enc.pick(optim, 8)
    c0, c1, cs, cf = enc.pick(d0, 3), enc.pick(d1, 3), enc.pick(start, 2), enc.pick(finals, 4)
    edges, st, fi = decode_dfa(c0, c1, cs, cf)
    gn = pick_bin(ng, NG_MAX + 1)
    raw = (fm, mm, cc, pi, op, c0, c1, cs, cf, gn, sum(cc) % gn)
    chx.enter("c17_inter", raw)
    ordered = [rules[i] for i in order]
    _STUB.order = None
    dfa = build_dfa(edges, st, fi)
    obs = chx.guarded(_run_inter, ordered, op, dfa)
    return chx.judge("C17", "c17_inter", raw, (rules, order, op, (edges, st, fi)), obs, _inter_oracle,
                     realize_obs=False)


# ----------------------------------------------------------------------------------------
# intersection with an automaton that has epsilon moves (the padding rules of FST.intersection)

EPS_SHAPES = [
    # (edges (p, symbol | None for epsilon, q), starts, finals)
    ([(0, "a", 1), (1, None, 2)], [0], [2]),                   # a, accepted after a trailing epsilon move
    ([(0, None, 1), (1, "a", 2)], [0], [2]),                   # a leading epsilon move
    ([(0, "a", 1), (1, None, 2), (2, "a", 2)], [0], [2]),      # a a*
    ([(0, "a", 1), (1, None, 0)], [0], [1]),                   # a+ through an epsilon back edge
    ([(0, None, 1)], [0], [1]),                                # the empty word only
]


def build_enfa(edges, st, fi):
    from pyformlang.finite_automaton import EpsilonNFA
    fa = EpsilonNFA()
    for p, a, q in edges:
        fa.add_transition(p, "epsilon" if a is None else a, q)
    for q in st:
        fa.add_start_state(q)
    for q in fi:
        fa.add_final_state(q)
    return fa


def ref_enfa(edges, st, fi):
    ref = ONFA.Ref(starts=st, finals=fi)
    for p, a, q in edges:
        if a is None:
            ref.add_eps(p, q)
        else:
            ref.add(p, a, q)
    return ref


def _inter_eps_oracle(args, obs):
    rules, order, optim, shape = args
    edges, st, fi = EPS_SHAPES[shape]
    tags = input_tags(rules, optim) + ["automaton_has_epsilon_moves"]
    want = O.intersection_is_empty(rules, ref_enfa(edges, st, fi), "S")
    fails = []
    res = obs
    if res[0] == "exc":
        fails.append(chx.exc_failure("intersection", res, tags=tags))
    else:
        got_empty, truth, grammar = res[1]
        if got_empty != want:
            fails.append(verdict_failure("intersection.is_empty", got_empty, want, tags))
        if (not truth) != want:
            fails.append(verdict_failure("bool(intersection)", not truth, want, tags))
    note = {"rules_in_order": [rules[i] for i in order], "optim": optim,
            "enfa": {"edges": edges, "start": st, "finals": fi}, "reference_intersection_empty": want}
    return nontrivial_grammar(rules), fails, note


def c17_inter_eps(fam: int, m: int, c: C3, perm: int, optim: int, shape: int, ng: int, grp: int) -> bool:
    """
    pre: pinned(fam=fam, m=m, perm=perm, optim=optim, shape=shape, ng=ng, grp=grp, c0=c[0])
    pre: family_ok(fam, c, m, ng, grp)
    pre: between(0, optim, 7) & index_ok(perm, m) & between(0, shape, 4)
    post: _
    """
    fm, mm, rules, cc = decode_rules(fam, c, m)
    pi = enc.pick(perm, FACT[mm])
    order = list(enc.PERMS[mm][pi])
    op = enc.pick(optim, 8)
    sh = enc.pick(shape, 5)
    gn = pick_bin(ng, NG_MAX + 1)
    raw = (fm, mm, cc, pi, op, sh, gn, sum(cc) % gn)
    if sh in (2, 3) and any(r[0] == "dup" and r[1] == r[2] == r[3] for r in rules):
        # X -> X X against an automaton with a cycle: the library's product construction runs for minutes
        # (253 s natively for S -> a, S -> S S and the a+ automaton); outside the claim, as in c17_inter
        return chx.assumed_away("c17_inter_eps")
    chx.enter("c17_inter_eps", raw)
    ordered = [rules[i] for i in order]
    _STUB.order = None
    edges, st, fi = EPS_SHAPES[sh]
    fa = build_enfa(edges, st, fi)
    # every value is concrete here (table-decoded): the product construction and its emptiness test run natively.
    # Under the tracer the same call costs 30x and some rule pairs (S -> S S with an epsilon back edge) take more
    # than the shard time-out without exploring any further path.
    with chx.NT():
        obs = chx.guarded(_run_inter, ordered, op, fa)
    return chx.judge("C17", "c17_inter_eps", raw, (rules, order, op, sh), obs, _inter_eps_oracle,
                     realize_obs=False)


# ----------------------------------------------------------------------------------------
# shards (every shard pins fam, m, ng, grp; sizes: <= ~1300 inputs quick, <= ~3300 thorough)

def _multisets(fam, m):
    """number of non-decreasing m-tuples of rule codes of the family"""
    import math
    return math.comb(NR[fam] + m - 1, m)


def _split(fam, m, per_shard, factor=1):
    """ng such that one (ng, grp) group x `factor` other free combinations stays under per_shard"""
    ng = 1
    while _multisets(fam, m) * factor / ng > per_shard and ng < NG_MAX:
        ng *= 2
    return ng


def _verdict_block(fam, m, per_shard, factor=1, **pins):
    ng = _split(fam, m, per_shard, factor)
    return product_pins(fam=[fam], m=[m], ng=[ng], grp=list(range(ng)), **pins)


M4_PERMS = [0, 23, 9, 16, 18, 6, 2, 1]   # identity, reverse, the 3 rotations, the 3 adjacent swaps


def _shards_verdict(tier):
    q = 1300
    out = []
    # fam 0 = {S,A} x {f} x {a}: 18 rules; 1140 multisets of 3 rules
    out += _verdict_block(0, 3, q, optim=[0], perm=[0, 1, 2, 3, 4, 5], shuf=[0])        # every order
    out += _verdict_block(0, 3, q, optim=[7], perm=[0, 5], shuf=[0])                    # the default optim
    out += _verdict_block(0, 3, q, optim=[1, 2, 3, 4, 5, 6], perm=[0], shuf=[0])        # every heuristic
    out += _verdict_block(0, 3, q, optim=[8], perm=[0], shuf=[5])                       # shuffle stub
    # 0..2 rules: every optim, every order, every shuffle (nothing else pinned)
    out += product_pins(fam=[0], m=[2], ng=[4], grp=[0, 1, 2, 3])
    out += product_pins(fam=[0], m=[0, 1], ng=[1], grp=[0])
    # fam 1 = {S,A} x {f,g}: 26 rules, 3276 multisets of 3 (pushed and consumed index may differ)
    out += _verdict_block(1, 3, q, optim=[7], perm=[0], shuf=[0])
    # 4 rules over fam 0 (5985 multisets): default optim, given order
    out += _verdict_block(0, 4, q, optim=[7], perm=[0], shuf=[0])
    if tier == "quick":
        return out
    t = 3300
    out += _verdict_block(0, 4, t, optim=[0], perm=M4_PERMS, shuf=[0])
    out += _verdict_block(0, 3, q, optim=[8], perm=[0], shuf=[1, 2, 3, 4])
    out += _verdict_block(0, 3, q, optim=[7], perm=[1, 2, 3, 4], shuf=[0])
    out += _verdict_block(1, 3, t, optim=[0], perm=[0, 1, 2, 3, 4, 5], shuf=[0])
    out += _verdict_block(1, 3, t, optim=[3, 5, 6], perm=[0], shuf=[0])
    out += _verdict_block(2, 3, t, optim=[7], perm=[0], shuf=[0])                       # {S,A,B} x {f}: 19600
    out += _verdict_block(3, 3, t, optim=[7], perm=[0], shuf=[0])                       # {S,A,B} x {f,g}: 50116
    out += _verdict_block(5, 2, t, factor=10, perm=[0])                                 # 2415 x optim x shuffle
    return out


# DFA(2,1) with start state 0, as pins (d0, d1, finals): delta(0,a), delta(1,a) in none/0/1 = 0/1/2
Q_DFAS = [dict(d0=2, d1=d1, finals=f) for d1 in (0, 1, 2) for f in (1, 2, 3)] + \
         [dict(d0=0, d1=0, finals=1), dict(d0=1, d1=0, finals=1)]


def _with(base, variants):
    return [dict(base, **v) for v in variants]


def _shards_inter(tier):
    out = []
    # fam 4 = {S,A} x {f} x {a, epsilon}: 20 rules, 210 multisets of 2
    base = dict(fam=4, m=2, ng=1, grp=0, optim=0, perm=0, start=1)
    out += _with(base, Q_DFAS)                                                          # 11 x 210
    out += _with(dict(base, optim=7), [dict(d0=2, d1=1, finals=1), dict(d0=2, d1=1, finals=2)])
    out += [dict(base, perm=1, start=0, d0=2, d1=1, finals=2)]                          # no start state
    # one rule, every optim 0..7, delta(0,a)=1, final set {1}, delta(1,a) free
    out += [dict(fam=4, m=1, ng=1, grp=0, start=1, d0=2, finals=2)]                     # 20*8*3
    # three rules whose least is S->a (c0=0) / S->epsilon (c0=1); no 2-cycle (the library's own emptiness
    # takes seconds to minutes natively on S->a, S->SS-like grammars x the 2-cycle DFA)
    out += product_pins(fam=[4], m=[3], ng=[1], grp=[0], optim=[0], perm=[0], start=[1], d0=[2],
                        c0=[0, 1], d1=[0, 2], finals=[1, 2])
    if tier == "quick":
        return out
    out += product_pins(fam=[4], m=[3], ng=[2], grp=[0, 1], optim=[0], perm=[0], start=[1],
                        d0=[0, 1, 2], d1=[0, 2], finals=[1, 2, 3])                      # 1540 x 18 DFAs
    out += product_pins(fam=[4], m=[2], ng=[1], grp=[0], optim=[7], perm=[0], start=[1],
                        finals=[1, 2, 3], d0=[0, 1, 2])                                 # d1 free
    out += product_pins(fam=[4], m=[2], ng=[1], grp=[0], optim=[1, 2, 3, 4, 5, 6], perm=[0], start=[1],
                        d0=[2], finals=[1, 2])                                          # d1 free
    out += product_pins(fam=[4], m=[2], ng=[1], grp=[0], optim=[0], perm=[1], start=[1],
                        finals=[1, 2, 3], d0=[0, 1, 2])                                 # reversed order
    out += product_pins(fam=[5], m=[2], ng=[2], grp=[0, 1], optim=[0], perm=[0], start=[1], d0=[2],
                        d1=[0, 2], finals=[1, 2, 3])                                    # 2415 x 6 DFAs
    out += product_pins(fam=[4], m=[2], ng=[1], grp=[0], optim=[0], perm=[0], start=[0],
                        d0=[0, 1, 2])                                                   # no start: 36 DFAs
    return out


FUNCS = ["Rules.__init__", "IndexedGrammar.__init__", "IndexedGrammar.is_empty", "IndexedGrammar.__bool__",
         "IndexedGrammar._duplication_processing", "IndexedGrammar._production_process", "addrec_bis",
         "addrec_ter", "IndexedGrammar.remove_useless_rules", "IndexedGrammar.get_generating_non_terminals",
         "IndexedGrammar.get_reachable_non_terminals", "RuleOrdering.reverse", "RuleOrdering.order_by_core",
         "RuleOrdering.order_by_arborescence", "RuleOrdering.order_by_edges", "RuleOrdering.order_random",
         "EndRule", "ProductionRule", "ConsumptionRule", "DuplicationRule"]
FUNCS_INTER = FUNCS + ["IndexedGrammar.intersection", "FiniteAutomaton.to_fst", "FST.intersection",
                       "FST._extract_consumption_rules_intersection",
                       "FST._extract_indexed_grammar_rules_intersection", "FST._extract_terminals_intersection",
                       "FST._extract_epsilon_transitions_intersection", "FST._extract_fst_delta_intersection",
                       "FST._extract_fst_epsilon_intersection", "FST._extract_fst_duplication_rules_intersection"]

STUB_TEXT = ("random.shuffle inside pyformlang.indexed_grammar.rule_ordering (optim 8) is replaced, in the "
             "harness process only, by the permutation number `shuf` (a symbolic input); /repo is not touched")
CH_TEXT = ("CrossHair configuration local to C17 workers: the set/frozenset/dict constructor substitutes are "
           "un-registered (all labels are concrete; DESIGN 2.7 contingency) and the sub-contract enforcement "
           "tracer is neutralised (no callee carries a contract)")
ASSUME = ["start variable is the default 'S' (rule_ordering and FST.intersection hard-code it)",
          "pyformlang.regular_expression has been imported before IndexedGrammar.intersection is called "
          "(the method reads it as a package attribute without importing it; the library's tests import it)",
          "regular languages are given as DeterministicFiniteAutomaton objects with <= 2 states over {a}, and in "
          "c17_inter_eps as EpsilonNFA objects with 2-3 states and epsilon moves "
          "(Regex operands make the library's own emptiness run for minutes natively: a* on S->a, S->SS = 75 s)",
          CH_TEXT]

Q_VERDICT = ("rule lists over variables {S,A}, terminal a, start S: (i) all 1140 multisets of 3 rules over index "
             "{f} (18 rules: end, production, consumption, duplication; duplicates included) x all 6 orders at "
             "optim 0, x orders {given, reversed} at optim 7, x given order at optim 1-6, x optim 8 with the "
             "reversing shuffle; (ii) all lists of 0-2 such rules x every order x every optim 0-8 x every "
             "shuffle; (iii) all 3276 multisets of 3 rules over indices {f,g} (26 rules) at optim 7; (iv) all "
             "5985 multisets of 4 rules over index {f} at optim 7")
T_VERDICT = ("quick, plus: 4 rules over {S,A}x{f} at optim 0 in 8 orders (identity, reverse, rotations, adjacent "
             "swaps); 3 rules over {S,A}x{f}: optim 8 with every shuffle, optim 7 in every order; 3 rules over "
             "{S,A}x{f,g}: every order at optim 0, optim 3, 5, 6; all 19600 multisets of 3 rules over {S,A,B}x{f} "
             "and all 50116 over {S,A,B}x{f,g} (66 rules) at optim 7; all 2415 pairs of rules over "
             "{S,A,B}x{f,g}x{a,epsilon} x every optim x every shuffle")
Q_INTER = ("rule lists over {S,A}, index {f}, terminals {a, 'epsilon'} (20 rules), start S; DFAs over {a} with "
           "states {0,1}: all 210 multisets of 2 rules x 11 DFAs with start 0 (delta(0,a)=1 x delta(1,a) in "
           "{none,0,1} x final set in {{0},{1},{0,1}}; the one-state DFAs of {eps} and a*) at optim 0; x the "
           "2-cycle DFA with final set {0} / {1} at optim 7; x the 2-cycle DFA without start state; every single "
           "rule x optim 0-7 x 3 DFAs; all 400 multisets of 3 rules whose least rule is S->a or S->epsilon x 4 "
           "DFAs (delta(0,a)=1, delta(1,a) in {none,1}, final set {0} or {1})")
T_INTER = ("quick, plus: all 1540 multisets of 3 rules x the 18 DFAs with delta(1,a) != 0 (optim 0); 2 rules x "
           "27 DFAs at optim 7 and in reversed order at optim 0; 2 rules x optim 1-6 x 6 DFAs; all 2415 pairs "
           "of rules over {S,A,B}x{f,g}x{a,epsilon} x 6 DFAs; 2 rules x all 36 DFAs without start state")

# ----------------------------------------------------------------------------------------
# chains of productions: the marking fixpoint must be reached whatever the order of the rules

CHAIN_BASE = [("prod", "S", "A", "g"), ("prod", "A", "C", "f"), ("dup", "C", "D", "E"), ("end", "D", "d"),
              ("end", "E", "e"), ("cons", "g", "Q", "D"), ("cons", "f", "Q", "E")]
# variations of single rules (index into CHAIN_BASE, replacement or None = rule removed)
CHAIN_VARIANTS = [None, (4, None), (2, ("dup", "C", "D", "D")), (1, ("prod", "A", "C", "g")),
                  (5, ("cons", "g", "C", "D")), (6, ("cons", "f", "C", "E")), (3, ("end", "C", "d")),
                  (0, ("prod", "S", "C", "g"))]


def _lib_rule(r):
    if r[0] == "end":
        return EndRule(r[1], r[2])
    if r[0] == "prod":
        return ProductionRule(r[1], r[2], r[3])
    if r[0] == "cons":
        return ConsumptionRule(r[1], r[2], r[3])
    return DuplicationRule(r[1], r[2], r[3])


def _chain_oracle(args, obs):
    rules, order_desc = args
    want = O.is_empty([tuple(r) for r in rules])
    fails = []
    for op, res in obs:
        if res[0] == "exc":
            fails.append(chx.exc_failure(op, res, tags=["chain_family"]))
        elif bool(res[1]) != want:
            fails.append({"kind": "verdict", "op": op, "tags": ["chain_family"],
                          "detail": "%s = %r for the rule order %r; the language is %s" % (
                              op, res[1], rules, "empty" if want else "not empty")})
    return True, fails, {"rules": rules, "order": order_desc, "empty": want}


def c17_chain(rot: int, i: int, j: int, variant: int, optim: int) -> bool:
    """
    pre: pinned(rot=rot, variant=variant, optim=optim)
    pre: ((0 <= rot) & (rot < 7)) & ((0 <= i) & (i <= j)) & (j < 7) & ((0 <= variant) & (variant < 8))
    pre: (0 <= optim) & (optim < 8)
    post: _
    """
    raw = (rot, i, j, variant, optim)
    rr, ii, jj = enc.pick(rot, 7), enc.pick(i, 7), enc.pick(j, 7)
    var = CHAIN_VARIANTS[enc.pick(variant, 8)]
    op_ = enc.pick(optim, 8)
    rules = list(CHAIN_BASE)
    if var is not None:
        if var[1] is None:
            del rules[var[0]]
        else:
            rules[var[0]] = var[1]
    n = len(rules)
    rules = rules[rr % n:] + rules[:rr % n]
    if ii < n and jj < n:
        rules[ii], rules[jj] = rules[jj], rules[ii]
    chx.enter("c17_chain", raw)
    obs = []

    def verdict():
        return IndexedGrammar(Rules([_lib_rule(r) for r in rules], op_)).is_empty()
    obs.append(("is_empty", chx.guarded(verdict)))
    return chx.judge("C17", "c17_chain", raw, (rules, [rr, ii, jj]), obs, _chain_oracle)


# ----------------------------------------------------------------------------------------
# a duplication below a production: S -> B[f], B -> C D; both C and D must be able to pop f

DUP_SKELETON = [("prod", "S", "B", "f"), ("dup", "B", "C", "D"), ("cons", "f", "C", "E"), ("end", "E", "a")]
DUP_C2 = [[], [("cons", "f", "C", "E")], [("cons", "f", "C", "F"), ("end", "F", "b")], [("cons", "g", "C", "E")]]
DUP_D = [[], [("cons", "f", "D", "E")], [("cons", "g", "D", "E")], [("end", "D", "d")],
         [("cons", "g", "D", "E"), ("cons", "g", "D", "S")]]


def c17_dup(c2: int, dd: int, rot: int, optim: int) -> bool:
    """
    pre: pinned(c2=c2, dd=dd, optim=optim)
    pre: ((0 <= c2) & (c2 < 4)) & ((0 <= dd) & (dd < 5)) & ((0 <= rot) & (rot < 8)) & ((0 <= optim) & (optim < 8))
    post: _
    """
    raw = (c2, dd, rot, optim)
    rules = DUP_SKELETON + DUP_C2[enc.pick(c2, 4)] + DUP_D[enc.pick(dd, 5)]
    rr = enc.pick(rot, 8)
    op_ = enc.pick(optim, 8)
    n = len(rules)
    rules = rules[rr % n:] + rules[:rr % n]
    chx.enter("c17_dup", raw)

    def verdict():
        return IndexedGrammar(Rules([_lib_rule(r) for r in rules], op_)).is_empty()
    obs = [("is_empty", chx.guarded(verdict))]
    return chx.judge("C17", "c17_dup", raw, (rules, [rr]), obs, _chain_oracle)


CONDS = [
    Cond("C17", c17_chain, lambda tier: (product_pins(rot=list(range(7)), variant=list(range(8)), optim=[0])
                                         if tier == "quick" else
                                         product_pins(rot=list(range(7)), variant=list(range(8)), optim=[0, 2, 3, 6, 7])),
         {"quick": "the 7-rule chain S->A[g], A->C[f], C->D E, D->d, E->e, (g,Q,D), (f,Q,E) and 7 one-rule variants of "
                   "it, listed in 7 rotations x every transposition of two rules (196 orders), optim 0: is_empty() "
                   "against O-IG",
          "thorough": "also optim 2, 3, 6, 7"},
         FUNCS, "always", assumptions=ASSUME),
    Cond("C17", c17_verdict, _shards_verdict, {"quick": Q_VERDICT, "thorough": T_VERDICT},
         FUNCS, "grammar has an end rule, a rule with S on the left and a non-end rule",
         stubs=[STUB_TEXT], assumptions=ASSUME, shard_timeout={"quick": 1500, "thorough": 6000}),
    Cond("C17", c17_inter, _shards_inter, {"quick": Q_INTER, "thorough": T_INTER},
         FUNCS_INTER, "non-trivial grammar and a DFA with a start state, a final state and an edge",
         stubs=[], assumptions=ASSUME, per_path_timeout=600.0,
         shard_timeout={"quick": 1500, "thorough": 6000}),
    Cond("C17", c17_inter_eps,
         lambda tier: product_pins(fam=[4], m=[2], ng=[8], grp=list(range(8)), optim=[0], perm=[0],
                                   shape=[0, 3] if tier == "quick" else [0, 2, 3]),
         {"quick": "all 210 pairs of rules over {S,A} x {f} x {a, epsilon} x 2 automata WITH epsilon moves (a then a "
                   "trailing epsilon move; a+ through an epsilon back edge), given as EpsilonNFA: "
                   "intersection(..).is_empty() and bool() against the O-IG product",
          "thorough": "also the automaton of a a*"},
         FUNCS_INTER, "non-trivial grammar", stubs=[],
         assumptions=ASSUME + ["c17_inter_eps: the inputs are chosen by the solver through the table decoding; the "
                               "library call itself (intersection, is_empty, bool) runs natively on the decoded "
                               "concrete input (the tracer made single inputs exceed the shard time-out)",
                               "c17_inter_eps: rule lists with a self-duplication X -> X X are left out for the two "
                               "automata with a cycle (run time of the library: minutes per input)"],
         per_path_timeout=600.0,
         shard_timeout={"quick": 1500, "thorough": 6000}),
    Cond("C17", c17_dup, lambda tier: product_pins(c2=[0, 1, 2, 3], dd=[0, 1, 2, 3, 4],
                                                   optim=[0] if tier == "quick" else [0, 3, 6, 7]),
         {"quick": "S->B[f], B->C D, (f,C,E), E->a plus a second rule for C (none / the same consumption again / another "
                   "consumption of f / a consumption of g) and rules for D (none / consumption of f / of g / an end rule "
                   "/ two consumptions of g), in 8 rotations of the rule list, optim 0: is_empty() against O-IG",
          "thorough": "also optim 3, 6, 7"},
         FUNCS, "always", assumptions=ASSUME),
]
