"""'Nullable chain' grammar family shared by C08 / C09 / C12 (4 variables S, A, B, C; terminals a, d):

     S -> A [d]          A -> B [a]          B -> subset of {eps, C, a, C C}      C -> subset of {eps, a, B}

512 grammars: long unit / nullable chains, variables with several completed bodies, nullable non-empty bodies.
Codes: variables S,A,B,C = 0..3 ; terminals a, d = 4, 5.
"""
from vlib import enc

VARS4 = ["S", "A", "B", "C"]
TERMS2 = ["a", "d"]
B_BODIES = [[], [3], [4], [3, 3]]
C_BODIES = [[], [4], [2]]


def decode_chain(sd, aa, bmask, cmask):
    prods = [(0, [1] + ([5] if enc.flag(sd) else [])), (1, [2] + ([4] if enc.flag(aa) else []))]
    for i in enc.mask_members(bmask, 4):
        prods.append((2, list(B_BODIES[i])))
    for i in enc.mask_members(cmask, 3):
        prods.append((3, list(C_BODIES[i])))
    return prods


def build(prods, order=None):
    return enc.build_cfg(prods, 4, vars_=VARS4, terms=TERMS2, order=order)


def ref(prods):
    return enc.ref_cfg(prods, 4, vars_=VARS4, terms=TERMS2)


def shards(tier):
    from vlib.registry import product_pins
    return product_pins(sd=[False, True], aa=[False, True], bmask=list(range(16)))
