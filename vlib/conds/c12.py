"""C12 — CFG emptiness, finiteness, symbol classes and word enumeration are exact."""
from typing import Tuple

from vlib import chx, enc
from vlib.chx import pinned
from vlib.oracles import cfg as OC
from vlib.registry import Cond, product_pins, cfg_pins
from vlib.conds.c08 import grammar_tags, P2, P3

cfg_canonical = enc.cfg_canonical
chx.warm_networkx()


def sym_set(objs):
    """Traced extraction of a set of CFG objects into plain (kind, value) pairs."""
    from pyformlang.cfg import Variable
    return [("V" if isinstance(o, Variable) else "T", o.value) for o in objs]


def _oracle(args, obs):
    prods, v, vars_, bound, unbounded = args
    g = enc.ref_cfg(prods, v, vars_=vars_)
    tags = grammar_tags(g)
    finite = OC.is_finite(g)
    tags.append("finite" if finite else "infinite")
    fails = []
    wants = {"is_empty": OC.is_empty(g), "is_finite": finite}
    for op in ("is_empty", "is_finite"):
        res = obs[op]
        if res[0] == "exc":
            fails.append(chx.exc_failure(op, res, tags=tags))
        elif bool(res[1]) != wants[op]:
            fails.append({"kind": "verdict", "op": op, "tags": tags,
                          "detail": "%s() = %r, definition %r" % (op, res[1], wants[op])})
    gen = {("V", x) for x in OC.generating_vars(g)} | {("T", t) for t in g.terminals}
    nul = {("V", x) for x in OC.nullable_vars(g)}
    reach = OC.reachable_symbols(g)
    for op, want in (("get_generating_symbols", gen), ("get_nullable_symbols", nul),
                     ("get_reachable_symbols", reach)):
        res = obs[op]
        if res[0] == "exc":
            fails.append(chx.exc_failure(op, res, tags=tags))
        else:
            got = {tuple(x) for x in res[1]}
            if got != want or len(res[1]) != len(got):
                fails.append({"kind": "verdict", "op": op, "tags": tags,
                              "detail": "%s() = %r, definition %r" % (op, sorted(got), sorted(want))})
    if "words" in obs:
        res = obs["words"]
        if unbounded:
            want = OC.words_upto(g, OC.max_word_length(g))
        else:
            want = OC.words_upto(g, bound) if bound >= 0 else set()
        if res[0] == "exc":
            fails.append(chx.exc_failure("get_words", res, tags=tags))
        else:
            got = [tuple(w) for w in res[1]]
            if set(got) == want and len(got) > len(want):
                fails.append({"kind": "duplicate", "op": "get_words", "tags": tags,
                              "detail": "bound %r: a word is yielded twice: %r" % (bound, got)})
            elif set(got) != want or len(got) != len(want):
                fails.append({"kind": "language", "op": "get_words", "tags": tags,
                              "detail": "bound %r: yielded %r, expected %r" % (
                                  "unbounded" if unbounded else bound, sorted(got)[:12], sorted(want)[:12])})
            if res[2]:
                fails.append({"kind": "shape", "op": "get_words", "tags": tags,
                              "detail": "a yielded word is not a list of Terminal objects"})
    return len(prods) >= 2 and not OC.is_empty(g), fails, dict(g.describe(), tags=tags,
                                                            bound=("unbounded" if unbounded else bound))


def _run(cond, raw, prods, v, bound, unbounded, vars_=enc.VARS, order=None):
    if unbounded:
        with chx.NT():
            fin = OC.is_finite(enc.ref_cfg(prods, v, vars_=vars_))
        if not fin:
            return chx.assumed_away(cond)     # unbounded enumeration is only claimed on finite languages
    chx.enter(cond, raw, realize=False)
    from pyformlang.cfg import Terminal

    def fresh():
        return enc.build_cfg(prods, v, vars_=vars_, order=order, as_list=order is not None)
    obs = {}
    obs["is_empty"] = chx.guarded(lambda: fresh().is_empty())
    obs["is_finite"] = chx.guarded(lambda: fresh().is_finite())
    obs["get_generating_symbols"] = chx.guarded(lambda: sym_set(fresh().get_generating_symbols()))
    obs["get_nullable_symbols"] = chx.guarded(lambda: sym_set(fresh().get_nullable_symbols()))
    obs["get_reachable_symbols"] = chx.guarded(lambda: sym_set(fresh().get_reachable_symbols()))

    def words():
        g = fresh()
        got = chx.take(g.get_words() if unbounded else g.get_words(bound), 60)
        bad = any(not isinstance(w, list) or any(not isinstance(x, Terminal) for x in w) for w in got)
        return [[x.value for x in w] for w in got], bad
    r = chx.guarded(words)
    obs["words"] = ("ok", r[1][0], r[1][1]) if r[0] == "ok" else r
    return chx.judge("C12", cond, raw, (prods, v, vars_, bound, unbounded), obs, _oracle)


def c12_p2(t: P2, p: int, bound: int, unbounded: bool) -> bool:
    """
    pre: pinned(p=p, h0=t[0], l0=t[1], unbounded=unbounded)
    pre: ((0 <= p) & (p <= 2)) & ((0 <= bound) & (bound <= 4))
    pre: cfg_canonical(t, p, 2, 2, 2)
    pre: (not unbounded) or bound == 0
    post: _
    """
    prods = enc.decode_cfg(t, p, 2, 2, 2)
    ub = enc.flag(unbounded)
    return _run("c12_p2", (t, p, bound, unbounded), prods, 2, bound, ub)


def c12_p3(t: P3, p: int, bound: int, unbounded: bool, perm: int) -> bool:
    """
    pre: pinned(h0=t[0], l0=t[1], s0=t[2], h1=t[4], unbounded=unbounded, perm=perm)
    pre: (p == 3) & ((0 <= bound) & (bound <= 4)) & ((0 <= perm) & (perm < 6))
    pre: cfg_canonical(t, p, 2, 2, 2)
    pre: (not unbounded) or bound == 0
    post: _
    """
    prods = enc.decode_cfg(t, p, 2, 2, 2)
    ub = enc.flag(unbounded)
    order = enc.perm_of(perm, 3)
    return _run("c12_p3", (t, p, bound, unbounded, perm), prods, 2, bound, ub, order=order)


def _seq_oracle(args, obs):
    prods, v, order = args
    return _seq_judge(enc.ref_cfg(prods, v), order, obs, len(prods))


def _seq_judge(g, order, obs, nprods):
    prods = [None] * nprods
    tags = grammar_tags(g) + ["order_%s" % "".join(map(str, order))]
    gen = {("V", x) for x in OC.generating_vars(g)} | {("T", t) for t in g.terminals}
    nul = {("V", x) for x in OC.nullable_vars(g)}
    wants = {"get_generating_symbols": gen, "get_nullable_symbols": nul, "get_reachable_symbols": OC.reachable_symbols(g),
             "is_empty": OC.is_empty(g), "is_finite": OC.is_finite(g), "get_words": OC.words_upto(g, 2),
             "contains_eps": () in OC.words_upto(g, 0), "generate_epsilon": () in OC.words_upto(g, 0)}
    fails = []
    for op, res in obs:
        if res[0] == "exc":
            fails.append(chx.exc_failure(op, res, tags=tags))
            continue
        got = res[1]
        want = wants[op]
        if isinstance(want, set):
            got = {tuple(x) for x in got}
        if got != want:
            fails.append({"kind": "verdict", "op": op, "tags": tags,
                          "detail": "asked in the order %r on one object: %s gives %r, definition %r" % (
                              [o for o, _ in obs], op, sorted(got) if isinstance(got, set) else got,
                              sorted(want) if isinstance(want, set) else want)})
    return len(prods) >= 2 and not OC.is_empty(g), fails, dict(g.describe(), order=[o for o, _ in obs])


SEQ_QUERIES = [
    ("get_generating_symbols", lambda g: sym_set(g.get_generating_symbols())),
    ("get_nullable_symbols", lambda g: sym_set(g.get_nullable_symbols())),
    ("get_words", lambda g: [[x.value for x in w] for w in chx.take(g.get_words(2), 40)]),
    ("is_empty", lambda g: bool(g.is_empty())),
    ("contains_eps", lambda g: bool(g.contains([]))),
    ("is_finite", lambda g: bool(g.is_finite())),
    ("get_reachable_symbols", lambda g: sym_set(g.get_reachable_symbols())),
    ("generate_epsilon", lambda g: bool(g.generate_epsilon())),
]


def c12_sequence(t: P3, p: int, perm: int) -> bool:
    """
    pre: pinned(p=p, h0=t[0], l0=t[1], s0=t[2], h1=t[4], perm=perm)
    pre: ((2 <= p) & (p <= 3)) & ((0 <= perm) & (perm < 6))
    pre: cfg_canonical(t, p, 2, 2, 2)
    post: _
    """
    raw = (t, p, perm)
    prods = enc.decode_cfg(t, p, 2, 2, 2)
    order = enc.perm_of(perm, 3)
    chx.enter("c12_sequence", raw)
    g = enc.build_cfg(prods, 2)             # ONE object: the answers must not depend on the order of the questions
    idx = order + [3, 4, 5, 6, 7]
    obs = []
    for i in idx:
        name, fn = SEQ_QUERIES[i]
        obs.append((name, chx.guarded(fn, g)))
    return chx.judge("C12", "c12_sequence", raw, (prods, 2, order), obs, _seq_oracle)


def _seq_chain_oracle(args, obs):
    from vlib.conds import chain
    prods, v, order = args
    return _seq_judge(chain.ref(prods), order, obs, len(prods))


def c12_chain(sd: bool, aa: bool, bmask: int, cmask: int, perm: int) -> bool:
    """
    pre: pinned(sd=sd, aa=aa, bmask=bmask, perm=perm)
    pre: ((0 <= bmask) & (bmask < 16)) & ((0 <= cmask) & (cmask < 8)) & ((0 <= perm) & (perm < 6))
    post: _
    """
    from vlib.conds import chain
    raw = (sd, aa, bmask, cmask, perm)
    prods = chain.decode_chain(sd, aa, bmask, cmask)
    order = enc.perm_of(perm, 3)
    chx.enter("c12_chain", raw)
    g = chain.build(prods)
    obs = []
    for i in order + [3, 4, 5, 6, 7]:
        name, fn = SEQ_QUERIES[i]
        obs.append((name, chx.guarded(fn, g)))
    return chx.judge("C12", "c12_chain", raw, (prods, 4, order), obs, _seq_chain_oracle)


# doubling family: lengths 1,2,4,8 sit exactly on get_words' hand-tuned stopping rule
DOUBLING = [
    [(0, [1, 1]), (1, [2, 2]), (2, [3])],                 # S->AA, A->BB, B->a          : {aaaa}
    [(0, [1, 1]), (1, [2, 2]), (2, [3]), (2, [4])],       # B->a|b
    [(0, [1, 1]), (1, [2, 2]), (2, [3]), (0, [3])],       # S->AA|a                     : {a, aaaa}
    [(0, [1, 1]), (1, [2, 2]), (2, [3]), (1, [3])],       # A->BB|a                     : lengths 2,3,4
    [(0, [1, 1]), (1, [2, 2]), (2, [3, 3])],              # B->aa                       : {a^8}
    [(0, [1, 1]), (1, [2, 2]), (2, [3, 3]), (0, [4])],    # S->AA|b                     : {b, a^8}
    [(0, [1, 1]), (1, [1, 1]), (1, [3])],                 # infinite: A->AA|a
    [(0, [1, 2]), (1, [3]), (2, [])],                     # S->AB, A->a, B->eps
]


def c12_doubling(which: int, bound: int, unbounded: bool) -> bool:
    """
    pre: pinned(which=which, unbounded=unbounded)
    pre: ((0 <= which) & (which < 8)) & ((0 <= bound) & (bound <= 9))
    pre: (not unbounded) or bound == 0
    post: _
    """
    prods = DOUBLING[enc.pick(which, len(DOUBLING))]
    ub = enc.flag(unbounded)
    return _run("c12_doubling", (which, bound, unbounded), prods, 3, bound, ub)


# a body of length 3 (repeated symbols next to a dead / nullable / generating one)
A_ALTS = [[(1, [3])], [(1, [])], [(1, [3]), (1, [])]]                 # A -> a | eps | both
B_ALTS = [[], [(2, [4])], [(2, [])], [(2, [2])]]                      # B: no production | b | eps | B -> B


def c12_b3(x: Tuple[int, int, int], ai: int, bi: int, bound: int, unbounded: bool) -> bool:
    """
    pre: pinned(x0=x[0], ai=ai, bi=bi, unbounded=unbounded)
    pre: enc.in_range(x, 5) & ((0 <= ai) & (ai < 3)) & ((0 <= bi) & (bi < 4)) & ((0 <= bound) & (bound <= 3))
    pre: (not unbounded) or bound == 0
    post: _
    """
    # variables S, A, B (codes 0-2), terminals a, b (codes 3, 4): S -> x0 x1 x2 plus the alternatives of A and B
    body = [enc.pick(x[i], 5) for i in range(3)]
    prods = [(0, body)] + A_ALTS[enc.pick(ai, 3)] + B_ALTS[enc.pick(bi, 4)]
    ub = enc.flag(unbounded)
    return _run("c12_b3", (x, ai, bi, bound, unbounded), prods, 3, bound, ub)


def _sh_p2(tier):
    return [{"p": 0, "unbounded": False}, {"p": 1, "unbounded": False}, {"p": 1, "unbounded": True}] + \
        product_pins(p=[2], h0=[0, 1], l0=[0, 1, 2], unbounded=[False, True])


def _sh_p3(tier):
    return cfg_pins(product_pins(h0=[0], l0=[0, 1], s0=[0, 1, 2, 3], h1=[0, 1], unbounded=[False, True], perm=[0]))


def _sh_sequence(tier):
    if tier == "quick":
        return product_pins(p=[3], h0=[0], l0=[1], s0=[1, 2], h1=[0, 1], perm=[0, 2, 4])
    return product_pins(p=[2], h0=[0, 1], perm=[0, 2, 4]) + \
        product_pins(p=[3], h0=[0], l0=[1], s0=[0, 1, 2, 3], h1=[0, 1], perm=[0, 2, 4])


def _sh_doubling(tier):
    return product_pins(which=list(range(8)), unbounded=[False, True])


FUNCS = ["CFG.is_empty", "CFG.is_finite", "CFG.get_generating_symbols", "CFG.get_nullable_symbols",
         "CFG.get_reachable_symbols", "CFG.get_words", "CFG.to_normal_form", "CFG._get_generating_or_nullable"]
RULE = "grammar with >= 2 productions and a non-empty language"
ASSUME = ["unbounded get_words() judged only when the oracle says the language is finite",
          "the bound n stays a symbolic int inside get_words (0..4, 0..9 for the doubling family)"]

CONDS = [
    Cond("C12", c12_p2, _sh_p2,
         {"quick": "all 904 grammars with <=2 productions over {S,A},{a,b}, bodies <=2 x symbolic bound 0..4 and "
                   "unbounded on finite languages; each query on a fresh object", "thorough": "same"},
         FUNCS, RULE, assumptions=ASSUME),
    Cond("C12", c12_p3, _sh_p3,
         {"thorough": "all grammars with 3 distinct productions x bounds x 2 insertion orders"},
         FUNCS, RULE, assumptions=ASSUME, tiers=("thorough",)),
    Cond("C12", c12_sequence, _sh_sequence,
         {"quick": "grammars with 3 productions whose first is S -> A or S -> a (second/third any, over {S,A},{a,b}): "
                   "generating symbols, nullable symbols and get_words(2) asked on ONE object in 3 different orders, "
                   "then is_empty, contains([]), is_finite, reachable symbols, generate_epsilon",
          "thorough": "all grammars with 2-3 productions x all 6 orders"},
         FUNCS, RULE, assumptions=ASSUME),
    Cond("C12", c12_chain, lambda tier: product_pins(sd=[False, True], aa=[False, True], bmask=list(range(16)),
                                                      perm=[0, 4]) if tier == "quick" else product_pins(sd=[False, True], aa=[False, True], bmask=list(range(16))),
         {"quick": "the 512 'nullable chain' grammars over 4 variables: all queries on ONE object in 2 orders",
          "thorough": "6 orders"},
         FUNCS, RULE, assumptions=ASSUME),
    Cond("C12", c12_doubling, _sh_doubling,
         {"quick": "8 hand-picked grammars over {S,A,B},{a,b} whose word lengths are 1,2,4,8 (doubling) x symbolic "
                   "bound 0..9 and unbounded", "thorough": "same"},
         FUNCS, RULE, assumptions=ASSUME),
    Cond("C12", c12_b3, lambda tier: product_pins(x0=[1] if tier == "quick" else [0, 1, 2, 3, 4], ai=[0, 1, 2], bi=[0, 1, 2, 3],
                                                  unbounded=[False, True]),
         {"quick": "S -> A x1 x2 (x1, x2 symbolic in {S,A,B,a,b}), A -> a | eps | both, B -> nothing | b | eps | B: a body "
                   "of length 3 with repeated symbols next to a dead, nullable or generating one; symbolic bound 0..3 and "
                   "unbounded", "thorough": "first symbol symbolic too"},
         FUNCS, RULE, assumptions=ASSUME),
]
