"""C13 — CFG <-> PDA and PDA acceptance-mode conversions preserve the language."""
from typing import Tuple

from vlib import chx, enc
from vlib.chx import pinned
from vlib.oracles import cfg as OC
from vlib.oracles import pda as OP
from vlib.registry import Cond, product_pins, cfg_pins
from vlib.conds.c08 import grammar_tags, P2, P3

cfg_canonical = enc.cfg_canonical
pda_canonical = enc.pda_canonical
chx.warm_networkx()
L = 3


# ----------------------------------------------------------------------------------------
# CFG -> PDA

def _cfg_oracle(args, obs):
    prods, v = args
    g = enc.ref_cfg(prods, v)
    tags = grammar_tags(g)
    want = OC.words_upto(g, L)
    fails = []
    res = obs["to_pda"]
    if res[0] == "exc":
        fails.append(chx.exc_failure("to_pda", res, tags=tags))
    else:
        r = OP.extract(res[1])
        got = OP.lang_empty_stack(r, L)
        if got != want:
            fails.append({"kind": "language", "op": "to_pda", "tags": tags,
                          "detail": "empty-stack language differs on %r" % (sorted(got ^ want)[:3],),
                          "result": r.describe()})
    rt = obs.get("roundtrip")
    if rt is not None:
        if rt[0] == "exc":
            fails.append(chx.exc_failure("to_pda.to_cfg", rt, tags=tags))
        else:
            got = OC.words_upto(OC.extract(rt[1]), L)
            if got != want:
                fails.append({"kind": "language", "op": "to_pda.to_cfg", "tags": tags,
                              "detail": "round trip differs on %r" % (sorted(got ^ want)[:3],)})
    return len(prods) >= 2 and bool(want), fails, dict(g.describe(), tags=tags)


def _run_cfg(cond, raw, prods, v):
    chx.enter(cond, raw)
    g = enc.build_cfg(prods, v)
    res = chx.guarded(g.to_pda)
    obs = {"to_pda": res}
    if res[0] == "ok":
        obs["roundtrip"] = chx.guarded(res[1].to_cfg)
    return chx.judge("C13", cond, raw, (prods, v), obs, _cfg_oracle, realize_obs=False)


def c13_cfg_p2(t: P2, p: int) -> bool:
    """
    pre: pinned(p=p, h0=t[0], l0=t[1])
    pre: 0 <= p <= 2
    pre: cfg_canonical(t, p, 2, 2, 2)
    post: _
    """
    prods = enc.decode_cfg(t, p, 2, 2, 2)
    return _run_cfg("c13_cfg_p2", (t, p), prods, 2)


def c13_cfg_p3(t: P3, p: int) -> bool:
    """
    pre: pinned(h0=t[0], l0=t[1], s0=t[2], h1=t[4])
    pre: p == 3
    pre: cfg_canonical(t, p, 2, 2, 2)
    post: _
    """
    prods = enc.decode_cfg(t, p, 2, 2, 2)
    return _run_cfg("c13_cfg_p3", (t, p), prods, 2)


# ----------------------------------------------------------------------------------------
# PDA -> CFG, acceptance modes

STATE_NAMES = [(0, 1), ("#STARTTOFINAL#", "#ENDTOFINAL#"), ("#STARTEMPTYS#", "#ENDEMPTYS#"), ("q", "#StartCFG#")]
STACK_NAMES = [("Z", "X"), ("#BOTTOMTOFINAL#", "#BOTTOMEMPTYS#"), ("#BOTTOMTOFINAL#0", "#BOTTOMTOFINAL#")]


def pda_tags(r):
    tags = []
    if any(a is None for (_, a, _, _, _) in r.transitions):
        tags.append("has_epsilon_move")
    if any(len(push) >= 2 for (_, _, _, _, push) in r.transitions):
        tags.append("pushes_several")
    if not r.finals:
        tags.append("no_final_state")
    return tags


def _pda_oracle(args, obs):
    spec = args
    r = enc.ref_pda(spec)
    tags = pda_tags(r)
    le, lf = OP.lang_empty_stack(r, L), OP.lang_final_state(r, L)
    fails = []
    res = obs["to_cfg"]
    if res[0] == "exc":
        fails.append(chx.exc_failure("to_cfg", res, tags=tags))
    else:
        got = OC.words_upto(OC.extract(res[1]), L)
        if got != le:
            fails.append({"kind": "language", "op": "to_cfg", "tags": tags,
                          "detail": "grammar differs from the empty-stack language on %r" % (sorted(got ^ le)[:3],)})
    res = obs["to_final_state"]
    if res[0] == "exc":
        fails.append(chx.exc_failure("to_final_state", res, tags=tags))
    else:
        x = OP.extract(res[1])
        got = OP.lang_final_state(x, L)
        if got != le:
            fails.append({"kind": "language", "op": "to_final_state", "tags": tags, "result": x.describe(),
                          "detail": "final-state language of the result differs from the empty-stack language "
                                    "of the original on %r" % (sorted(got ^ le)[:3],)})
    res = obs["to_empty_stack"]
    if res[0] == "exc":
        fails.append(chx.exc_failure("to_empty_stack", res, tags=tags))
    else:
        x = OP.extract(res[1])
        got = OP.lang_empty_stack(x, L)
        if got != lf:
            fails.append({"kind": "language", "op": "to_empty_stack", "tags": tags, "result": x.describe(),
                          "detail": "empty-stack language of the result differs from the final-state language "
                                    "of the original on %r" % (sorted(got ^ lf)[:3],)})
    # conversions of conversions on ONE object (states and stack symbols are shared between the PDAs)
    for op in ("to_cfg;to_final_state.to_cfg", "to_cfg;to_empty_stack.to_cfg"):
        if op not in obs:
            continue
        res = obs[op]
        if res[0] == "exc":
            fails.append(chx.exc_failure(op, res, tags=tags))
            continue
        mid, grammar = res[1]
        want = OP.lang_empty_stack(OP.extract(mid), L)
        got = OC.words_upto(OC.extract(grammar), L)
        if got != want:
            fails.append({"kind": "language", "op": op, "tags": tags,
                          "detail": "to_cfg() of the derived PDA (after to_cfg() of the source) differs from the "
                                    "derived PDA's empty-stack language on %r" % (sorted(got ^ want)[:3],)})
    return len(r.transitions) >= 2 and bool(le | lf), fails, dict(r.describe(), tags=tags)


T10 = Tuple[int, int, int, int, int, int, int, int, int, int]
T15 = Tuple[int, int, int, int, int, int, int, int, int, int, int, int, int, int, int]


def _run_pda(cond, raw, trans, finals, names, stack):
    spec = enc.pda_spec(trans, finals, states=STATE_NAMES[names], stack=STACK_NAMES[stack])
    chx.enter(cond, raw)
    obs = {}
    for op in ("to_cfg", "to_final_state", "to_empty_stack"):
        pda = enc.build_pda(spec)          # fresh object per conversion
        obs[op] = chx.guarded(getattr(pda, op))
    one = enc.build_pda(spec)

    def chained(conv):
        one.to_cfg()
        mid = getattr(one, conv)()
        return mid, mid.to_cfg()
    obs["to_cfg;to_final_state.to_cfg"] = chx.guarded(chained, "to_final_state")
    obs["to_cfg;to_empty_stack.to_cfg"] = chx.guarded(chained, "to_empty_stack")
    return chx.judge("C13", cond, raw, spec, obs, _pda_oracle, realize_obs=False)


def c13_pda_m2(t: T10, m: int, finals: int, k: int, names: int, stack: int) -> bool:
    """
    pre: pinned(m=m, finals=finals, k=k, names=names, stack=stack, f0=t[0], i0=t[1], p0=t[2], c0=t[4])
    pre: ((0 <= m) & (m <= 2)) & ((0 <= finals) & (finals < 4)) & ((1 <= k) & (k <= 2)) & ((0 <= names) & (names < 4)) & ((0 <= stack) & (stack < 3))
    pre: pda_canonical(t, m, 2, k)
    post: _
    """
    raw = (t, m, finals, k, names, stack)
    kk = enc.pick(k, 3)
    trans = enc.decode_pda(t, m, 2, kk)
    fin = enc.mask_members(finals, 2)
    return _run_pda("c13_pda_m2", raw, trans, fin, enc.pick(names, 4), enc.pick(stack, 3))


def c13_pda_m3(t: T15, m: int, finals: int) -> bool:
    """
    pre: pinned(finals=finals, i0=t[1], c0=t[4], f1=t[5], i1=t[6])
    pre: (m == 3) & ((0 <= finals) & (finals < 4))
    pre: pda_canonical(t, m, 2, 1)
    pre: (t[0] == 0) & (t[2] == 0)
    post: _
    """
    raw = (t, m, finals)
    trans = enc.decode_pda(t, m, 2, 1)
    fin = enc.mask_members(finals, 2)
    return _run_pda("c13_pda_m3", raw, trans, fin, 0, 0)


B7 = Tuple[int, int, int, int, int, int, int]


def c13_pda_push3(q: B7, i4: int, finals: int) -> bool:
    """
    pre: pinned(finals=finals, s1=q[0], p2=q[1], s2=q[2])
    pre: enc.in_range(q, 2) & ((0 <= i4) & (i4 < 2)) & ((0 <= finals) & (finals < 4))
    post: _
    """
    # a push of three symbols whose pops happen in symbolic states:
    #   (0, a, Z) -> (s1, X X Z);  (p2, b, X) -> (s2, eps);  (p3, b, X) -> (s3, eps);  (p4, eps|a, Z) -> (s4, eps)
    raw = (q, i4, finals)
    s1, p2, s2, p3, s3, p4, s4 = [enc.pick(x, 2) for x in q]
    trans = [(0, 1, 0, s1, 4), (p2, 2, 1, s2, 0), (p3, 2, 1, s3, 0), (p4, enc.pick(i4, 2), 0, s4, 0)]
    if (p2, s2) == (p3, s3):
        trans.pop(2)
    fin = enc.mask_members(finals, 2)
    return _run_pda("c13_pda_push3", raw, trans, fin, 0, 0)


def _sh_cfg2(tier):
    return [{"p": 0}, {"p": 1}] + product_pins(p=[2], h0=[0, 1], l0=[0, 1, 2])


def _sh_cfg3(tier):
    return cfg_pins(product_pins(h0=[0, 1], l0=[0, 1, 2], s0=[0, 1, 2, 3], h1=[0, 1]))


def _sh_m2(tier):
    if tier == "quick":
        # first transition leaves the start configuration (state 0, Z on the stack); k=1
        return [{"m": 1, "k": 1, "names": 0, "stack": 0}] + \
            product_pins(m=[2], finals=[2, 3], k=[1], names=[0], stack=[0], f0=[0], i0=[0, 1], p0=[0],
                         c0=[0, 2, 3, 4]) + \
            product_pins(m=[2], finals=[2], k=[1], names=[1, 2, 3], stack=[1, 2], f0=[0], i0=[0, 1], p0=[0], c0=[3])
    return [{"m": 0}, {"m": 1}] + \
        product_pins(m=[2], finals=[0, 1, 2, 3], k=[1, 2], names=[0], stack=[0], f0=[0], p0=[0],
                     c0=list(range(6))) + \
        product_pins(m=[2], finals=[2, 3], k=[1], names=[1, 2, 3], stack=[1, 2], f0=[0], p0=[0], c0=[0, 3, 4])


def _sh_m3(tier):
    # the transitions are sorted: a second transition from state 0 cannot read less than the first one
    return [p for p in product_pins(finals=[2, 3], i0=[0, 1], c0=[3], f1=[0, 1], i1=[0, 1])
            if not (p["f1"] == 0 and p["i1"] < p["i0"])]


FUNCS = ["CFG.to_pda", "PDAObjectCreator (cfg)", "PDA.to_cfg", "PDA._generate_all_rules",
         "PDA._process_transition_and_state_to_cfg", "CFGVariableConverter.*", "PDA.to_final_state",
         "PDA.to_empty_stack", "get_next_free", "pda.TransitionFunction.*", "PDA.to_networkx"]
RULE = ">= 2 productions / transitions and a non-empty language up to length 3"
ASSUME = ["languages compared on all words of length <= 3: grammars by the O-CFG fixpoint on extracted productions, "
          "PDAs by the O-PDA summary fixpoints on the extracted transitions (validated against brute-force "
          "configuration search)",
          "the start stack symbol is read through to_networkx() (there is no accessor)"]

CONDS = [
    Cond("C13", c13_cfg_p2, _sh_cfg2,
         {"quick": "all 904 grammars with <=2 productions over {S,A},{a,b}, bodies <=2: to_pda() by empty stack, and "
                   "to_pda().to_cfg()", "thorough": "same"},
         FUNCS, RULE, assumptions=ASSUME),
    Cond("C13", c13_cfg_p3, _sh_cfg3,
         {"thorough": "all grammars with 3 distinct productions"},
         FUNCS, RULE, assumptions=ASSUME, tiers=("thorough",)),
    Cond("C13", c13_pda_m2, _sh_m2,
         {"quick": "PDAs with 2 states, stack {Z,X}, input {eps,a}, <=2 transitions (first one from the start "
                   "configuration), pushes from {[],[Z],[X],[X,Z],[X,X,Z],[Z,X]}, final masks {1},{0,1}; plus state/"
                   "stack names equal to the library's reserved fresh names: to_cfg, to_final_state, to_empty_stack",
          "thorough": "input {eps,a,b}, all final masks, all push codes"},
         FUNCS, RULE, assumptions=ASSUME),
    Cond("C13", c13_pda_m3, _sh_m3,
         {"thorough": "3 transitions (first from (0,Z)), input {eps,a}, final masks {1},{0,1}"},
         FUNCS, RULE, assumptions=ASSUME, tiers=("thorough",)),
    Cond("C13", c13_pda_push3, lambda tier: product_pins(finals=[2, 3] if tier == "quick" else [0, 1, 2, 3],
                                                         s1=[0, 1], p2=[0, 1], s2=[0, 1]),
         {"quick": "(0,a,Z)->(s1,XXZ), (p2,b,X)->(s2,eps), (p3,b,X)->(s3,eps), (p4,eps|a,Z)->(s4,eps) with all seven "
                   "states symbolic in {0,1}: a push of three symbols popped in different states; finals {1} / {0,1}",
          "thorough": "all final masks"},
         FUNCS, RULE, assumptions=ASSUME),
]
