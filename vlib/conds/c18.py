"""C18 — unification is the glb; FCFG membership respects it."""
from itertools import product
from typing import Tuple

from vlib import chx, enc
from vlib.chx import pinned, thorough
from vlib.oracles import fs as O
from vlib.registry import Cond, product_pins

from pyformlang.cfg import CFG, Variable, Terminal
from pyformlang.fcfg import (FCFG, FeatureStructure, FeatureProduction,
                             FeatureStructuresNotCompatibleException)

NOT_COMPATIBLE = FeatureStructuresNotCompatibleException.__name__

# ========================================================================================
# FS(2): the family of feature structures, as plain data
#
# top-level features f, g; each absent / unspecified / atom / nested structure over the inner
# features (each inner feature absent / unspecified / atom; not all absent); optionally ONE sharing:
# two positions (neither a prefix of the other) that carry the same description are one node.
# Plus the feature-less roots: an atomic root per atom.
# The table is fixed (tier independent, so that replay files mean the same in every tier); the
# quick tier uses the prefix of NQ entries (inner feature h only), the thorough tier all of it.

ATOMS = ("1", "2")


def _specs(inner, atoms):
    leaf = ["U"] + [("A", v) for v in atoms]
    nested = []
    for combo in product([None] + leaf, repeat=len(inner)):
        d = {k: v for k, v in zip(inner, combo) if v is not None}
        if d:
            nested.append(("N", d))
    top = [None] + leaf + nested
    out = []
    for cf, cg in product(top, repeat=2):
        spec = {k: v for k, v in (("f", cf), ("g", cg)) if v is not None}
        out.append((spec, None))
        pos = []
        for t, s in spec.items():
            pos.append(((t,), s))
            if s != "U" and s[0] == "N":
                for i, leafspec in s[1].items():
                    pos.append(((t, i), leafspec))
        for i in range(len(pos)):
            for j in range(i + 1, len(pos)):
                p, q = pos[i], pos[j]
                if p[0][:len(q[0])] == q[0] or q[0][:len(p[0])] == p[0]:
                    continue
                if p[1] == q[1]:
                    out.append((spec, (p[0], q[0])))
    for v in atoms:
        out.append((("ROOT", v), None))
    return out


def _to_fs(spec, share):
    """plain O-FS structure of a (spec, share) description"""
    if isinstance(spec, tuple) and spec[0] == "ROOT":
        return {"root": 0, "nodes": [("A", spec[1])]}
    nodes = [("C", {})]
    at = {}

    def mk(path, s):
        if share is not None and path == share[1]:
            return at[share[0]]
        me = len(nodes)
        at[path] = me
        if s == "U":
            nodes.append(("C", {}))
        elif s[0] == "A":
            nodes.append(("A", s[1]))
        else:
            nodes.append(("C", {}))
            for i, leafspec in s[1].items():
                nodes[me][1][i] = mk(path + (i,), leafspec)
        return me

    for t, s in spec.items():
        nodes[0][1][t] = mk((t,), s)
    return {"root": 0, "nodes": nodes}


def _family():
    small = _specs(["h"], ATOMS)
    seen = {repr(x) for x in small}
    big = [x for x in _specs(["h", "k"], ATOMS) if repr(x) not in seen]
    return small, small + big


_SMALL, DESCR = _family()
NQ = len(_SMALL)              # 66
NALL = len(DESCR)             # 735
FAMILY = [_to_fs(s, sh) for s, sh in DESCR]
HAS_SHARE = [sh is not None for _, sh in DESCR]

I3 = Tuple[int, int, int]


def idx_ok(d, big):
    """precondition: three base-10 digits of an index into the family (big: whole table, else the
    quick prefix)"""
    return 0 <= d[0] < 10 and 0 <= d[1] < 10 and 0 <= d[2] < 10 and \
        (100 * d[0] + 10 * d[1] + d[2]) < (NALL if big else NQ)


def idx_of(d):
    return 100 * enc.pick(d[0], 10) + 10 * enc.pick(d[1], 10) + enc.pick(d[2], 10)


# ----------------------------------------------------------------------------------------
# construction through the public API

def build_api(fsd, gfirst):
    """FeatureStructure(value), add_content (top level), add_content_path (inner features)."""
    nodes = fsd["nodes"]
    objs = [FeatureStructure(n[1]) if n[0] == "A" else FeatureStructure() for n in nodes]
    root = objs[fsd["root"]]
    if nodes[fsd["root"]][0] == "A":
        return root
    tops = list(nodes[fsd["root"]][1].items())
    if gfirst:
        tops.reverse()
    filled = set()
    for feat, child in tops:
        root.add_content(feat, objs[child])
    for feat, child in tops:
        if child in filled:
            continue
        filled.add(child)
        if nodes[child][0] == "C":
            for inner, leaf in nodes[child][1].items():
                root.add_content_path(inner, objs[leaf], [feat])
    return root


def render(fsd, gfirst, style):
    """Text of a structure for FeatureStructure.from_text.
    style bit0: sharing of an unspecified node written with a variable (?x) instead of a reference
    ((1)); bit1: '->' instead of '='; bit2: unspecified written '[]' instead of a fresh variable;
    bit3: no blank after the comma."""
    nodes = fsd["nodes"]
    if nodes[fsd["root"]][0] == "A":
        return None
    count = {}
    for n in nodes:
        if n[0] == "C":
            for c in n[1].values():
                count[c] = count.get(c, 0) + 1
    eq = "->" if style & 2 else "="
    sep = "," if style & 8 else ", "
    fresh = [0]
    emitted = set()

    def value(i):
        n = nodes[i]
        shared = count.get(i, 0) > 1
        if n[0] == "A":
            body = n[1]
        elif n[1]:
            body = "[" + sep.join(k + eq + value(c) for k, c in n[1].items()) + "]"
        else:
            if shared and (style & 1):
                return "?x"
            if shared:
                body = ""
            elif style & 4:
                body = "[]"
            else:
                fresh[0] += 1
                body = "?u%d" % fresh[0]
        if shared:
            if i in emitted:
                return "(1)"
            emitted.add(i)
            return "(1)" + body
        return body

    tops = list(nodes[fsd["root"]][1].items())
    if gfirst:
        tops.reverse()
    return sep.join(k + eq + value(c) for k, c in tops)


def build_text(fsd, gfirst, style):
    text = render(fsd, gfirst, style)
    if text is None:      # atomic root: no text form; constructor
        return FeatureStructure(fsd["nodes"][fsd["root"]][1])
    return FeatureStructure.from_text(text)


def build(fsd, gfirst, route):
    """route 0: constructors; route r>0: from_text with style r-1"""
    if route == 0:
        return build_api(fsd, gfirst)
    return build_text(fsd, gfirst, route - 1)


# ----------------------------------------------------------------------------------------
# observation helpers (oracle side, native)

def _observe(lib_fs, what, fails, op, tags):
    """extract + canonical form of a library structure; appends failures, returns canon or None"""
    try:
        got = O.extract(lib_fs)
    except O.ExtractProblem as exc:
        fails.append({"kind": "shape", "op": op, "detail": "%s: %s" % (what, exc), "tags": tags})
        return None, None
    except Exception as exc:  # noqa  the library's accessors raised
        fails.append({"kind": "exception", "op": op + ".observe", "exc": type(exc).__name__,
                      "detail": "%s: %r" % (what, exc), "tags": tags})
        return None, None
    if O.is_cyclic(got):
        fails.append({"kind": "shape", "op": op, "detail": "%s is cyclic" % what, "tags": tags})
        return None, None
    probs = O.check_path_api(lib_fs, got)
    if probs:
        fails.append({"kind": "shape", "op": op + ".get_feature_by_path", "detail": "%s: %s" % (what, "; ".join(probs)),
                      "tags": tags})
    return got, O.canon(got)


def _stale_forwarded_node(lib_fs):
    """True iff some node reachable through `content` alone (the walk get_all_paths does) has been
    forwarded (`pointer` set) to a node whose features differ from its own: the input class of the
    get_all_paths finding."""
    seen = set()
    todo = [lib_fs]
    while todo:
        n = todo.pop()
        if id(n) in seen:
            continue
        seen.add(id(n))
        if n.pointer is not None and set(n.content) != set(n.get_dereferenced().content):
            return True
        todo.extend(n.content.values())
    return False


def _check_all_paths(lib_fs, want_fs, fails, op, tags):
    want = O.leaf_paths(want_fs)
    try:
        got = O.library_leaf_paths(lib_fs)
    except Exception as exc:  # noqa
        fails.append({"kind": "exception", "op": op + ".get_all_paths", "exc": type(exc).__name__,
                      "detail": repr(exc), "tags": tags})
        return
    if sorted(set(got)) != want or len(got) != len(set(got)):
        t = list(tags)
        if _stale_forwarded_node(lib_fs):
            t.append("forwarded_node_hides_features")
        fails.append({"kind": "paths", "op": op + ".get_all_paths", "tags": t,
                      "detail": "get_all_paths() = %r, the structure's maximal paths are %r" % (got, want)})


# ----------------------------------------------------------------------------------------
# (a)/(b) unify

def _unify_oracle(args, obs):
    ia, ib, order, route, A, B = args
    status, glb = O.unify(A, B)
    fails = []
    tags = ["route_text" if route else "route_api"]
    if HAS_SHARE[ia]:
        tags.append("receiver_has_sharing")
    if HAS_SHARE[ib]:
        tags.append("argument_has_sharing")
    tags.append("oracle_" + status)
    note = {"a": DESCR[ia], "b": DESCR[ib], "order": order, "route": route, "oracle": status,
            "text": [render(A, order & 1, route - 1), render(B, order & 2, route - 1)] if route else None}
    nontrivial = bool(A["nodes"][A["root"]][1]) and bool(B["nodes"][B["root"]][1])
    built = obs["built"]
    if built[0] != "ok":
        fails.append(chx.exc_failure("build", built, tags=tags))
        return nontrivial, fails, note
    a, b, a_keep, b_keep, a2, b2 = built[1]
    # the constructions denote the described structures; copies are equal to them
    for what, lib, ref in (("copy of receiver", a_keep, A), ("copy of argument", b_keep, B)):
        _, c = _observe(lib, what, fails, "build+copy", tags)
        if c is not None and c != O.canon(ref):
            fails.append({"kind": "shape", "op": "build+copy", "tags": tags,
                          "detail": "%s is %r, described structure is %r" % (what, c, O.canon(ref))})
    if fails:
        return nontrivial, fails, note
    r1, r2 = obs["r1"], obs["r2"]
    results = []
    for op, res, recv in (("unify", r1, a), ("unify.reversed", r2, b2)):
        if status == "clash":
            if res[0] == "ok":
                fails.append({"kind": "verdict", "op": op, "tags": tags,
                              "detail": "incompatible structures were unified without an exception"})
            elif res[1] != NOT_COMPATIBLE:
                fails.append(chx.exc_failure(op, res, tags=tags))
            continue
        # compatible: must succeed and leave the glb in the receiver
        if res[0] != "ok":
            if res[1] == NOT_COMPATIBLE:
                fails.append({"kind": "verdict", "op": op, "tags": tags, "exc": res[1], "site": res[2],
                              "detail": "compatible structures rejected"})
            else:
                fails.append(chx.exc_failure(op, res, tags=tags))
            continue
        got, c = _observe(recv, "receiver after " + op, fails, op, tags)
        if c is None:
            continue
        results.append(c)
        if c != O.canon(glb):
            fails.append({"kind": "glb", "op": op, "tags": tags,
                          "detail": "receiver is %r, glb is %r" % (c, O.canon(glb))})
        else:
            _check_all_paths(recv, glb, fails, op, tags)
    if len(results) == 2 and results[0] != results[1] and not fails:
        fails.append({"kind": "order", "op": "unify", "tags": tags,
                      "detail": "a.unify(b) gives %r, b.unify(a) gives %r" % (results[0], results[1])})
    return nontrivial, fails, note


def _build_all(A, B, order, route):
    a = build(A, order & 1, route)
    b = build(B, order & 2, route)
    return a, b, a.copy(), b.copy(), a.copy(), b.copy()


def _unify_common(cond, raw, ia, ib, order, route):
    A, B = FAMILY[ia], FAMILY[ib]
    with chx.NT():
        status, _ = O.unify(A, B)
    if status in ("type", "cyclic"):
        # not "consistently typed" / not of bounded depth: outside the quantifier
        return chx.assumed_away(cond)
    chx.enter(cond, raw)
    built = chx.guarded(_build_all, A, B, order, route)
    obs = {"built": built, "r1": None, "r2": None}
    if built[0] == "ok":
        a, b, _, _, a2, b2 = built[1]
        obs["r1"] = chx.guarded(a.unify, b)
        obs["r2"] = chx.guarded(b2.unify, a2)
    return chx.judge("C18", cond, raw, (ia, ib, order, route, A, B), obs, _unify_oracle,
                     realize_obs=False)


def c18_unify(a: I3, b: I3, order: int) -> bool:
    """
    pre: pinned(a0=a[0], a1=a[1], b0=b[0], b1=b[1], order=order)
    pre: idx_ok(a, thorough()) and idx_ok(b, False) and 0 <= order < 4
    pre: (order == 0 or (100 * a[0] + 10 * a[1] + a[2]) < NQ) if thorough() else (order == 0 or order == 2)
    post: _
    """
    ia, ib = idx_of(a), idx_of(b)
    od = enc.pick(order, 4)
    return _unify_common("c18_unify", (a, b, order), ia, ib, od, 0)


# ----------------------------------------------------------------------------------------
# (a') two successive unifications into one receiver (forwarded nodes are forwarded again)

def _flat(spec):
    """plain O-FS structure with top-level features only; spec: feature -> ('var', name) | ('val', atom);
    features holding the same variable share one unspecified node"""
    nodes = [("C", {})]
    var_node = {}
    for feat, (kind, what) in spec.items():
        if kind == "var":
            if what not in var_node:
                var_node[what] = len(nodes)
                nodes.append(("C", {}))
            nodes[0][1][feat] = var_node[what]
        else:
            nodes[0][1][feat] = len(nodes)
            nodes.append(("A", what))
    return {"root": 0, "nodes": nodes}


def _chain_family():
    feats = ["f", "g", "k"]
    shared = []
    for i in range(3):
        rest = feats[i]
        pair = [x for x in feats if x != rest]
        base = {pair[0]: ("var", "v"), pair[1]: ("var", "v")}
        shared.append(dict(base))
        shared.append(dict(base, **{rest: ("val", "1")}))
        shared.append(dict(base, **{rest: ("var", "w")}))
    shared.append({x: ("var", "v") for x in feats})
    single = [{x: ("val", v)} for x in feats for v in ATOMS[:2]] + shared[0:9:3]
    return shared, single


CHAIN_SHARED, CHAIN_LAST = _chain_family()          # 10 receivers / first arguments, 9 second arguments
CHAIN_FS = [_flat(x) for x in CHAIN_SHARED]
CHAIN_LAST_FS = [_flat(x) for x in CHAIN_LAST]


def _chain_oracle(args, obs):
    ia, ib, ic = args
    A, B, C = CHAIN_FS[ia], CHAIN_FS[ib], CHAIN_LAST_FS[ic]
    s1, g1 = O.unify(A, B)
    s2, g2 = O.unify(g1, C)
    tags = ["chain_of_two_unifications", "oracle_" + s2]
    note = {"a": CHAIN_SHARED[ia], "b": CHAIN_SHARED[ib], "c": CHAIN_LAST[ic], "oracle": [s1, s2]}
    fails = []
    built = obs["built"]
    if built[0] != "ok":
        fails.append(chx.exc_failure("build", built, tags=tags))
        return True, fails, note
    a, b, c = built[1]
    r1, r2 = obs["r1"], obs["r2"]
    if r1[0] != "ok":
        fails.append(chx.exc_failure("unify", r1, tags=tags))
        return True, fails, note
    if s2 == "clash":
        if r2[0] == "ok":
            fails.append({"kind": "verdict", "op": "unify.second", "tags": tags,
                          "detail": "incompatible structures were unified without an exception"})
        elif r2[1] != NOT_COMPATIBLE:
            fails.append(chx.exc_failure("unify.second", r2, tags=tags))
        return True, fails, note
    if r2[0] != "ok":
        if r2[1] == NOT_COMPATIBLE:
            fails.append({"kind": "verdict", "op": "unify.second", "tags": tags, "exc": r2[1], "site": r2[2],
                          "detail": "compatible structures rejected"})
        else:
            fails.append(chx.exc_failure("unify.second", r2, tags=tags))
        return True, fails, note
    got, cn = _observe(a, "receiver after two unifications", fails, "unify.second", tags)
    if cn is not None:
        if cn != O.canon(g2):
            fails.append({"kind": "glb", "op": "unify.second", "tags": tags,
                          "detail": "receiver is %r, glb is %r" % (cn, O.canon(g2))})
        else:
            _check_all_paths(a, g2, fails, "unify.second", tags)
    return True, fails, note


def c18_unify_chain(ai: int, bi: int, ci: int) -> bool:
    """
    pre: pinned(ai=ai)
    pre: ((0 <= ai) & (ai < 10)) & ((0 <= bi) & (bi < 10)) & ((0 <= ci) & (ci < 9))
    post: _
    """
    raw = (ai, bi, ci)
    ia, ib, ic = enc.pick(ai, 10), enc.pick(bi, 10), enc.pick(ci, 9)
    A, B, C = CHAIN_FS[ia], CHAIN_FS[ib], CHAIN_LAST_FS[ic]
    with chx.NT():
        s1, g1 = O.unify(A, B)
        s2 = O.unify(g1, C)[0] if s1 == "ok" else None
    if s1 != "ok" or s2 in ("type", "cyclic"):
        return chx.assumed_away("c18_unify_chain")
    chx.enter("c18_unify_chain", raw)
    built = chx.guarded(lambda: (build(A, 0, 0), build(B, 0, 0), build(C, 0, 0)))
    obs = {"built": built, "r1": None, "r2": None}
    if built[0] == "ok":
        a, b, c = built[1]
        obs["r1"] = chx.guarded(a.unify, b)
        if obs["r1"][0] == "ok":
            obs["r2"] = chx.guarded(a.unify, c)
    return chx.judge("C18", "c18_unify_chain", raw, (ia, ib, ic), obs, _chain_oracle, realize_obs=False)


def c18_unify_text(a: I3, b: I3, order: int, style: int) -> bool:
    """
    pre: pinned(a0=a[0], a1=a[1], b0=b[0], b1=b[1], order=order, style=style)
    pre: idx_ok(a, False) and idx_ok(b, False) and 0 <= order < 4 and 0 <= style < 2
    pre: 10 * a[1] + a[2] <= 10 * b[1] + b[2]
    pre: thorough() or (order == 0 and style == 1)
    post: _
    """
    ia, ib = idx_of(a), idx_of(b)
    od = enc.pick(order, 4)
    st = enc.pick(style, 2)
    return _unify_common("c18_unify_text", (a, b, order, style), ia, ib, od, 1 + st)


# ----------------------------------------------------------------------------------------
# (b) from_text alone: the text denotes the described structure, and agrees with the constructors

def _text_oracle(args, obs):
    ia, gfirst, style, A, text = args
    fails = []
    tags = ["has_sharing"] if HAS_SHARE[ia] else []
    want = O.canon(A)
    for op, res in (("from_text", obs[0]), ("add_content", obs[1])):
        if res[0] != "ok":
            fails.append(chx.exc_failure(op, res, tags=tags))
            continue
        _, c = _observe(res[1], "structure", fails, op, tags)
        if c is None:
            continue
        if c != want:
            fails.append({"kind": "shape", "op": op, "tags": tags,
                          "detail": "%r gives %r, described structure is %r" % (text, c, want)})
        else:
            _check_all_paths(res[1], A, fails, op, tags)
    return len(A["nodes"]) > 2, fails, {"descr": DESCR[ia], "text": text, "style": style}


def c18_from_text(a: I3, gfirst: bool, style: int) -> bool:
    """
    pre: pinned(a0=a[0], a1=a[1], style=style, gfirst=gfirst)
    pre: idx_ok(a, thorough()) and 0 <= style < 16
    pre: (100 * a[0] + 10 * a[1] + a[2]) < NQ or not gfirst
    post: _
    """
    ia = idx_of(a)
    gf = enc.flag(gfirst)
    st = enc.pick(style, 16)
    A = FAMILY[ia]
    text = render(A, gf, st)
    if text is None:
        return chx.assumed_away("c18_from_text")     # atomic root: no text form
    raw = (a, gfirst, style)
    chx.enter("c18_from_text", raw)
    obs = (chx.guarded(FeatureStructure.from_text, text), chx.guarded(build_api, A, gf))
    return chx.judge("C18", "c18_from_text", raw, (ia, gf, st, A, text), obs, _text_oracle, realize_obs=False)


# one symbolic str through the real tokenizer. Judged only on the conservative well-formed subset
#   item (',' item)*   item = ' '* name ' '* '=' ' '* atom ' '*   name in [fg]+  atom in [12]+
# with pairwise different names; any other text: no demand at all (lenient readings are not flagged).
STR_ALPHABET = "fg=12, "


def _wellformed_flat(text):
    out = {}
    for item in text.split(","):
        if item.count("=") != 1:
            return None
        name, val = item.split("=")
        name, val = name.strip(" "), val.strip(" ")
        if not name or not val or any(c not in "fg" for c in name) or any(c not in "12" for c in val):
            return None
        if name in out:
            return None
        out[name] = val
    return out


def _str_oracle(args, obs):
    (text,) = args
    want = _wellformed_flat(text)
    fails = []
    if want is None:
        return False, fails, {"text": text, "class": "not judged"}
    if obs[0] != "ok":
        fails.append(chx.exc_failure("from_text", obs))
    else:
        got = obs[1]
        ref = {"root": 0, "nodes": [("C", {k: i + 1 for i, k in enumerate(want)})] + [("A", v) for v in want.values()]}
        if got != O.canon(ref):
            fails.append({"kind": "shape", "op": "from_text", "detail": "%r read as %r, expected %r" % (text, got, O.canon(ref))})
    return True, fails, {"text": text, "class": "well-formed"}


def _read_str(text):
    fs = FeatureStructure.from_text(text)
    return O.canon(O.extract(fs))       # plain data; realised by the judge


def c18_from_text_str(text: str) -> bool:
    """
    pre: pinned(n=len(text), c0=text[:1])
    pre: len(text) <= (4 if thorough() else 3)
    pre: all(c in "fg=12, " for c in text)
    post: _
    """
    chx.enter("c18_from_text_str", (text,), realize=False)
    obs = chx.guarded(_read_str, text)
    return chx.judge("C18", "c18_from_text_str", (text,), (text,), obs, _str_oracle)


# ========================================================================================
# (c) FCFG.contains on feature-annotated grammar templates
#
# one feature N over the value domain {s, p}; annotation codes: 0 none, 1 N=s, 2 N=p, 3 N=?x
# (the scope of ?x is one production). A template is a list of productions
# (head, head annotation, body); an annotation is a slot number 0..3 (symbolic) or a fixed code
# ("c", code); body items are terminals "a"/"b" or (variable, annotation).

FIX_NONE, FIX_S, FIX_P = ("c", 0), ("c", 1), ("c", 2)
TEMPLATES = [
    ("agreement", [          # agreement variable shared between head and body / between siblings
        ("S", 0, [("A", 1), ("B", 2)]),
        ("A", FIX_S, ["a"]), ("A", FIX_P, ["b"]),
        ("B", 3, ["a"]), ("B", FIX_P, ["b"])]),
    ("chain", [              # a value handed up and down through unit productions
        ("S", FIX_NONE, [("A", 0)]),
        ("A", 1, [("B", 2)]),
        ("B", 3, ["a"]), ("B", FIX_P, ["b"])]),
    ("epsilon", [
        ("S", FIX_NONE, [("A", 0), ("B", 1)]),
        ("A", 2, []), ("A", FIX_P, ["a"]),
        ("B", 3, ["b"])]),
    ("ambiguity", [          # the same word derived with different feature values
        ("S", FIX_NONE, [("A", 0), ("A", 1)]),
        ("A", 2, ["a"]), ("A", 3, ["a"]), ("A", FIX_P, ["b"])]),
    ("left_recursion", [
        ("S", 0, [("S", 1), ("A", 2)]),
        ("S", 3, ["a"]),
        ("A", FIX_S, ["a"]), ("A", FIX_P, ["b"])]),
    ("alternatives", [       # two alternatives of one head, each with its own annotation
        ("S", FIX_NONE, [("A", 0)]), ("S", FIX_NONE, [("B", 1)]),
        ("A", 2, ["a"]), ("A", FIX_P, ["b"]),
        ("B", 3, ["b"]), ("B", FIX_P, ["a"])]),
    ("lexical_ambiguity", [  # one word, several entries with the same head and body but different features
        ("S", FIX_NONE, [("A", 0), ("B", 1)]),
        ("A", FIX_S, ["a"]), ("A", FIX_P, ["a"]),
        ("B", 2, ["b"]), ("B", FIX_P, ["a"]), ("B", 3, ["b"])]),
    ("indirect_epsilon", [   # A is nullable only through the unit production A -> B, and is predicted twice
        ("S", FIX_NONE, [("A", 0), ("A", 1), "b"]),
        ("A", 2, [("B", 3)]), ("A", FIX_P, ["a"]),
        ("B", FIX_S, []), ("B", FIX_P, ["a"])]),
]
NTPL = len(TEMPLATES)
# a second query on the SAME grammar object, after the symbolic word: contains() must not depend on
# earlier queries (the chart states start from the productions' own feature structures)
PROBES = [["b", "b"], ["b"], ["a", "b"], ["b", "b"], ["a", "b"], ["a"], ["a", "a"], ["a", "b"]]
ANN_TEXT = ["", "[N=s]", "[N=p]", "[N=?x]"]
I4 = Tuple[int, int, int, int]


def _resolve(tpl, ann):
    """concrete productions: (head, code, [terminal | (var, code)])"""
    def code(a):
        return a[1] if isinstance(a, tuple) else ann[a]
    return [(h, code(ha), [it if isinstance(it, str) else (it[0], code(it[1])) for it in body])
            for h, ha, body in TEMPLATES[tpl][1]]


def _grammar_text(prods, bars):
    """one production per line; bars: productions with the same head text joined with '|'"""
    lines = []
    for h, hc, body in prods:
        left = h + ANN_TEXT[hc]
        right = " ".join(it if isinstance(it, str) else it[0] + ANN_TEXT[it[1]] for it in body) or "epsilon"
        if bars and lines and lines[-1][0] == left:
            lines[-1][1].append(right)
        else:
            lines.append((left, [right]))
    return "\n".join(left + " -> " + " | ".join(rights) for left, rights in lines)


def _ann_fs(code, xnode):
    fs = FeatureStructure()
    if code == 1:
        fs.add_content("N", FeatureStructure("s"))
    elif code == 2:
        fs.add_content("N", FeatureStructure("p"))
    elif code == 3:
        fs.add_content("N", xnode)
    return fs


def _grammar_direct(prods):
    """FeatureProduction objects; ?x = one node shared by all its occurrences in the production"""
    out = []
    for h, hc, body in prods:
        xnode = FeatureStructure()
        syms, feats = [], []
        for it in body:
            if isinstance(it, str):
                syms.append(Terminal(it))
                feats.append(FeatureStructure())
            else:
                syms.append(Variable(it[0]))
                feats.append(_ann_fs(it[1], xnode))
        out.append(FeatureProduction(Variable(h), syms, _ann_fs(hc, xnode), feats))
    return FCFG(start_symbol=Variable("S"), productions=out)


def _build_fcfg(prods, route):
    if route == 1:
        return _grammar_direct(prods)
    return FCFG.from_text(_grammar_text(prods, route == 2))


def _tprods(prods):
    def ann(c):
        return {} if c == 0 else {"N": ("c", "s")} if c == 1 else {"N": ("c", "p")} if c == 2 else {"N": ("x", "x")}
    return [(h, ann(hc), [("t", it) if isinstance(it, str) else ("v", it[0], ann(it[1])) for it in body])
            for h, hc, body in prods]


def _grammar_tags(prods, route):
    tags = [["from_text"], ["direct"], ["from_text", "bar_syntax"]][route][:]
    if any(not body for _, _, body in prods):
        tags.append("has_epsilon_production")
    seen = {}
    for h, hc, body in prods:
        key = (h, tuple(it if isinstance(it, str) else it[0] for it in body))
        sig = (hc, tuple(None if isinstance(it, str) else it[1] for it in body))
        if key in seen and seen[key] != sig:
            tags.append("same_head_and_body_different_features")
        seen.setdefault(key, sig)
    if route == 2:
        # input class of the '|' finding: a later alternative of one line has a variable whose
        # annotation differs from the annotation at the same position counted from the start of the line
        group, flat = None, []
        for h, hc, body in prods:
            left = h + ANN_TEXT[hc]
            codes = [0 if isinstance(it, str) else it[1] for it in body]
            if left != group:
                group, flat = left, []
            elif any(not isinstance(it, str) and (flat + codes)[i] != it[1] for i, it in enumerate(body)):
                if "bar_alternative_misaligned_features" not in tags:
                    tags.append("bar_alternative_misaligned_features")
            flat = flat + codes
    return tags


def _membership_failures(op, res, want, want_no_eps, tags, word):
    fails = []
    if res[0] != "ok":
        fails.append(chx.exc_failure(op, res, tags=tags))
    elif bool(res[1]) != want:
        t = list(tags)
        t.append("library_false" if want else "library_true")
        if want and not want_no_eps:
            t.append("needs_epsilon_production")
        fails.append({"kind": "verdict", "op": op, "tags": t,
                      "detail": "contains(%r) = %r, reference %r" % (word, res[1], want)})
    return fails


def _fcfg_oracle(args, obs):
    tpl, ann, route, prods, word = args
    tp = _tprods(prods)
    plain, start = O.instantiate(tp, "S", ["N"], ["s", "p"])
    want = O.cfg_contains(plain, start, word)
    plain_ne, start_ne = O.instantiate([p for p in tp if p[2]], "S", ["N"], ["s", "p"])
    want_ne = O.cfg_contains(plain_ne, start_ne, word)
    tags = _grammar_tags(prods, route)
    if obs["built"][0] != "ok":
        fails = [chx.exc_failure("build", obs["built"], tags=tags)]
    else:
        fails = _membership_failures("FCFG.contains", obs["res"], want, want_ne, tags, word)
        probe = PROBES[tpl]
        fails += _membership_failures("FCFG.contains", obs["res2"], O.cfg_contains(plain, start, probe),
                                      O.cfg_contains(plain_ne, start_ne, probe), tags + ["second_call"], probe)
    free = O.cfg_contains(O.strip_features(tp), "S", word)
    note = {"template": TEMPLATES[tpl][0], "grammar": _grammar_text(prods, route == 2), "route": route,
            "word": word, "reference": want, "feature_free_reference": free}
    # non-trivial: the features decide (the feature-free grammar accepts the word)
    return free, fails, note


# word lengths judged per template: the lengths at which the template's feature-free language lives
# (quick: exactly those; thorough: everything up to them)
WLEN_Q = [(2,), (1,), (1, 2), (2,), (2,), (1,), (2,), (1, 2)]
WMAX_T = [2, 1, 2, 2, 3, 1, 2, 3]
ANN3 = (0, 1, 3)          # none, N=s, N=?x


def fcfg_bound(tpl, ann, w, wlen, route, big):
    """quick: every template built by from_text (route 0) except lexical_ambiguity, which is built from
    FeatureProduction objects (route 1: from_text would drop its same-shaped entries); the four symbolic annotations over {none, s, ?x} (epsilon template: the two lexical slots
    none); words of the template's characteristic lengths.
    thorough: route 0 annotations over {none, s, p, ?x}; route 1 over {none, s, ?x}; route 2 ('|' syntax)
    for the ambiguity and alternatives templates; all words up to the characteristic length."""
    ok = 0 <= tpl < NTPL and 0 <= wlen <= 3 and 0 <= route < 3
    for i in range(4):
        ok = ok and 0 <= ann[i] < 4
    for i in range(3):
        ok = ok and 0 <= w[i] < 2 and (i < wlen or w[i] == 0)
    if not ok:
        return False
    small_ann = ann[0] != 2 and ann[1] != 2 and ann[2] != 2 and ann[3] != 2
    if big:
        if route == 1 and not small_ann:
            return False
        if route == 2 and not (tpl == 3 or tpl == 5):
            return False
        for t in range(NTPL):
            if tpl == t:
                return wlen <= WMAX_T[t]
        return False
    if not small_ann:
        return False
    if (route == 0) == (tpl == 6) or route == 2:
        return False
    if tpl == 2 and not (ann[2] == 0 and ann[3] == 0):
        return False
    for t in range(NTPL):
        if tpl == t:
            return any(wlen == n for n in WLEN_Q[t])
    return False


def c18_fcfg(tpl: int, ann: I4, w: Tuple[int, int, int], wlen: int, route: int) -> bool:
    """
    pre: pinned(tpl=tpl, route=route, ann0=ann[0], ann1=ann[1], wlen=wlen)
    pre: fcfg_bound(tpl, ann, w, wlen, route, thorough())
    post: _
    """
    tp = enc.pick(tpl, NTPL)
    an = [enc.pick(ann[i], 4) for i in range(4)]
    rt = enc.pick(route, 3)
    word = enc.decode_word(w, wlen, ["a", "b"])
    prods = _resolve(tp, an)
    raw = (tpl, ann, w, wlen, route)
    chx.enter("c18_fcfg", raw)
    built = chx.guarded(_build_fcfg, prods, rt)
    obs = {"built": built, "res": None, "res2": None}
    if built[0] == "ok":
        obs = {"built": ("ok",), "res": chx.guarded(built[1].contains, word),
               "res2": chx.guarded(built[1].contains, PROBES[tp])}
    return chx.judge("C18", "c18_fcfg", raw, (tp, an, rt, prods, word), obs, _fcfg_oracle)


# ========================================================================================
# (d) feature-free FCFG = plain CFG
#
# variables S, A; terminals a, b; production i = (head, body of <= 2 symbols);
# symbol codes: 0 absent, 1 S, 2 A, 3 a, 4 b; body (0,0) = epsilon; (x,0) = one symbol.

SYM = [None, "S", "A", "a", "b"]
I2 = Tuple[int, int]


def _plain_prods(h1, b0, b1, h2, b2):
    prods = [("S", b0), (SYM[h1], b1)]
    if h2:
        prods.append((SYM[h2], b2))
    out = []
    for h, b in prods:
        body = [SYM[c] for c in b if c]
        item = (h, 0, [s if s in ("a", "b") else (s, 0) for s in body])
        if item not in out:
            out.append(item)
    return out


def _plain_oracle(args, obs):
    prods, route, word = args
    tp = _tprods(prods)
    plain = O.strip_features(tp)
    want = O.cfg_contains(plain, "S", word)
    want_ne = O.cfg_contains([p for p in plain if p[1]], "S", word)
    tags = _grammar_tags(prods, route)
    fails = []
    if obs["built"][0] != "ok":
        fails.append(chx.exc_failure("build", obs["built"], tags=tags))
    else:
        fails += _membership_failures("FCFG.contains", obs["fcfg"], want, want_ne, tags, word)
        # CFG.contains (natively, as a second reference) against the same oracle: a disagreement between
        # those two is a C08 matter, reported separately and tagged so
        cfg_res = chx.guarded(_cfg_contains, prods, word)
        fails += _membership_failures("CFG.contains", cfg_res, want, want_ne, tags + ["c08_matter"], word)
    note = {"grammar": _grammar_text(prods, route == 2), "route": route, "word": word, "reference": want}
    # non-trivial: the grammar derives some word of length <= 3
    return bool(O.lang_upto(plain, 3).get("S")), fails, note


def plain_bound(h1, b0, b1, h2, b2, w, wlen, route, big):
    """Two productions S -> b0, h1 -> b1:
         quick: A -> b1 (|b1| <= 1) or S -> b1 (b1 = epsilon, a or b); words <= 2; FeatureProduction objects;
         thorough: h1 in {S, A}, any bodies; words <= 2; from_text.
       Three productions S -> b0, A -> b1, S -> b2 with |b0| = 2, A in b0, b2 in {epsilon, a, b}, FeatureProduction
       objects (the shape in which a variable is predicted in the middle of the word):
         quick: |b1| = 2, S in b1, b2 in {a, b}, words of length 2;   thorough: any b1, words <= 3."""
    ok = 1 <= h1 <= 2 and 0 <= h2 <= 2 and 0 <= wlen <= 3 and 0 <= route < 2
    for b in (b0, b1, b2):
        ok = ok and 0 <= b[0] <= 4 and 0 <= b[1] <= 4 and (b[0] != 0 or b[1] == 0)
    for i in range(3):
        ok = ok and 0 <= w[i] < 2 and (i < wlen or w[i] == 0)
    if not ok:
        return False
    if h2 == 0:
        if not (b2[0] == 0 and b2[1] == 0 and wlen <= 2):
            return False
        if big:
            return route == 0
        if route != 1 or b1[1] != 0:
            return False
        return h1 == 2 or (b1[0] != 1 and b1[0] != 2)
    if not (route == 1 and h1 == 2 and h2 == 1 and b0[1] != 0 and (b0[0] == 2 or b0[1] == 2)
            and b2[1] == 0 and b2[0] != 1 and b2[0] != 2):
        return False
    if big:
        return True
    return wlen == 2 and b1[1] != 0 and (b1[0] == 1 or b1[1] == 1) and b2[0] != 0


def c18_plain(h1: int, b0: I2, b1: I2, h2: int, b2: I2, w: Tuple[int, int, int], wlen: int, route: int) -> bool:
    """
    pre: pinned(h1=h1, h2=h2, b00=b0[0], b10=b1[0], b01=b0[1], wlen=wlen, route=route, b20=b2[0])
    pre: plain_bound(h1, b0, b1, h2, b2, w, wlen, route, thorough())
    post: _
    """
    hh1, hh2 = enc.pick(h1, 3), enc.pick(h2, 3)
    bodies = [(enc.pick(b[0], 5), enc.pick(b[1], 5)) for b in (b0, b1, b2)]
    rt = enc.pick(route, 2)
    word = enc.decode_word(w, wlen, ["a", "b"])
    prods = _plain_prods(hh1, bodies[0], bodies[1], hh2, bodies[2])
    raw = (h1, b0, b1, h2, b2, w, wlen, route)
    chx.enter("c18_plain", raw)
    built = chx.guarded(_build_fcfg, prods, rt)
    obs = {"built": built, "fcfg": None}
    if built[0] == "ok":
        obs = {"built": ("ok",), "fcfg": chx.guarded(built[1].contains, word)}
    return chx.judge("C18", "c18_plain", raw, (prods, rt, word), obs, _plain_oracle)


def _cfg_contains(prods, word):
    return CFG.from_text(_grammar_text(prods, False)).contains(word)


# ========================================================================================
# shards, bounds, registry

def _digit_pairs(n):
    """(d0, d1) prefixes of the base-10 index digits below n"""
    return sorted({(i // 100, (i // 10) % 10) for i in range(n)})


def _shards_unify(tier):
    if tier == "quick":
        return [dict(a0=0, a1=x, b0=0, b1=y) for x in range(7) for y in range(7)]
    return [dict(a0=p, a1=q, b0=0) for (p, q) in _digit_pairs(NALL)]


def _shards_unify_text(tier):
    if tier == "quick":
        return [dict(a0=0, a1=x, b0=0, b1=y, style=1, order=0) for x in range(7) for y in range(x, 7)]
    return [dict(a0=0, a1=x, b0=0, style=s, order=o) for x in range(7) for s in range(2) for o in range(4)]


def _shards_from_text(tier):
    if tier == "quick":
        return [dict(a0=0, a1=x, gfirst=g) for x in range(7) for g in (False, True)]
    return [dict(a0=p, a1=q) for (p, q) in _digit_pairs(NALL)]


def _shards_str(tier):
    if tier == "quick":
        return [{}]
    return [dict(n=k) for k in range(4)] + [dict(n=4, c0=c) for c in STR_ALPHABET]


def _shards_fcfg(tier):
    if tier == "quick":
        return [dict(tpl=t, route=(1 if t == 6 else 0), ann0=x, ann1=y) for t in range(NTPL) for x in ANN3 for y in ANN3]
    out = [dict(tpl=t, route=0, ann0=x, ann1=y) for t in range(NTPL) for x in range(4) for y in range(4)]
    out += [dict(tpl=t, route=1, ann0=x, ann1=y) for t in range(NTPL) for x in ANN3 for y in ANN3]
    out += [dict(tpl=t, route=2, ann0=x, ann1=y) for t in (3, 5) for x in range(4) for y in range(4)]
    return out


_B0_WITH_A = [(2, 1), (2, 2), (2, 3), (2, 4), (1, 2), (3, 2), (4, 2)]


def _shards_plain(tier):
    if tier == "quick":
        out = [dict(h1=h, h2=0, route=1, b00=x, wlen=n) for h in (1, 2) for x in range(5) for n in range(3)]
        out += [dict(h1=2, h2=1, route=1, b00=x, b01=y, wlen=2) for (x, y) in _B0_WITH_A]
        return out
    out = [dict(h1=h, h2=0, route=0, b00=x, b10=y) for h in (1, 2) for x in range(5) for y in range(5)]
    out += [dict(h1=2, h2=1, route=1, b00=x, b01=y, b10=z) for (x, y) in _B0_WITH_A for z in range(5)]
    return out


FS_FUNCS = ["FeatureStructure.unify", "FeatureStructure.copy", "FeatureStructure.get_dereferenced",
            "FeatureStructure.get_feature_by_path", "FeatureStructure.get_all_paths",
            "FeatureStructure.add_content", "FeatureStructure.add_content_path", "FeatureStructure.value",
            "FeatureStructure.from_text", "_preprocess_conditions", "_create_feature_structure"]
FCFG_FUNCS = ["FCFG.contains", "FCFG._get_final_state", "FCFG.__predictor", "_scanner", "_completer",
              "FCFG.from_text", "FCFG._read_line", "FeatureProduction.__init__", "StateProcessed.add",
              "FeatureStructure.subsumes", "FeatureStructure.copy", "FeatureStructure.unify"]

_FAM_Q = ("structures over f, g: each absent / unspecified / atom in {'1','2'} / nested {h: unspecified or atom}, "
          "with at most one sharing (f=g, f.h=g.h, f.h=g, f=g.h), plus the atomic roots '1','2' (66 structures)")
_FAM_T = ("structures over f, g: each absent / unspecified / atom / nested over inner features h, k "
          "(each absent / unspecified / atom), at most one sharing between two equally described positions, "
          "plus atomic roots (735 structures)")
_UNIFY_CHECKS = ("; per pair: a.unify(b) and, on copies taken before, b.unify(a): success iff the oracle finds no atom "
                 "clash, receiver = glb (canonical form), both orders agree, get_all_paths = maximal paths of the glb, "
                 "failure = FeatureStructuresNotCompatibleException; type-inconsistent and cyclic pairs assumed away")
_TPL = "8 grammar templates (agreement, chain, epsilon, ambiguity, left recursion, alternatives, lexical ambiguity, indirect epsilon: a variable nullable only through a unit production and predicted twice)"

CONDS = [
    Cond("C18", c18_unify, _shards_unify,
         {"quick": "all ordered pairs of " + _FAM_Q + " built with FeatureStructure()/add_content/add_content_path; "
                   "insertion order of the argument's features both ways" + _UNIFY_CHECKS,
          "thorough": "all pairs (X, Y), X from " + _FAM_T + ", Y from the 66-structure family (the reversed "
                      "direction is the second unification of every pair); all four feature insertion orders when X is "
                      "in the 66-structure family, f-before-g otherwise"},
         FS_FUNCS, "both structures have at least one feature"),
    Cond("C18", c18_unify_text, _shards_unify_text,
         {"quick": "all unordered pairs of the 66-structure family (both directions unified), both built by "
                   "FeatureStructure.from_text from a rendered text, sharing of an unspecified value written as a "
                   "variable ?x (a forwarded node), other sharing as (1) references",
          "thorough": "same pairs x sharing written as variable or as reference x 4 feature orders"},
         FS_FUNCS, "both structures have at least one feature"),
    Cond("C18", c18_from_text, _shards_from_text,
         {"quick": "every structure of the 66-structure family x 16 text styles (variable/reference sharing, '='/'->', "
                   "'?u'/'[]' for unspecified, ', '/',') x 2 feature orders: from_text(text) and the constructor-built "
                   "structure both equal the described structure",
          "thorough": "every structure of the 735-structure family x 16 styles (x 2 orders on the 66-structure family)"},
         FS_FUNCS, "structure has at least two non-root nodes"),
    Cond("C18", c18_from_text_str, _shards_str,
         {"quick": "one symbolic str, len <= 3 over 'fg=12, ' through from_text; judged on the well-formed flat subset "
                   "name=atom(,name=atom)*",
          "thorough": "len <= 4"},
         FS_FUNCS, "text is in the well-formed flat subset", per_path_timeout=120),
    Cond("C18", c18_fcfg, _shards_fcfg,
         {"quick": _TPL + " x 4 symbolic feature annotations over {none, N=s, N=?x} (N=p fixed in the lexicon; epsilon "
                   "template: 2 symbolic annotations) x all words over {a,b} of the template's characteristic lengths "
                   "(1-2) x construction by FCFG.from_text (lexical ambiguity: by FeatureProduction objects); each "
                   "grammar object is queried twice (symbolic word, then a fixed probe word)",
          "thorough": _TPL + " x annotations over {none, N=s, N=p, N=?x} (from_text) / {none, s, ?x} (FeatureProduction "
                      "objects) x all words up to the characteristic length (3 for left recursion); from_text with "
                      "'|' alternatives for the ambiguity and alternatives templates"},
         FCFG_FUNCS, "the feature-free grammar derives the word (so the features decide)"),
    Cond("C18", c18_plain, _shards_plain,
         {"quick": "feature-free FCFG (FeatureProduction objects) over variables S, A and terminals a, b, bodies of <= 2 "
                   "symbols, epsilon included: S -> b0 with A -> b1 (|b1| <= 1) or S -> b1 (epsilon, a, b), words <= 2; "
                   "and S -> b0, A -> b1, S -> b2 with |b0| = |b1| = 2, A in b0, S in b1, b2 in {a, b}, words of length 2; "
                   "compared with the membership oracle and (natively) with CFG.contains",
          "thorough": "S -> b0, (S|A) -> b1, all 21 x 21 bodies, words <= 2 (from_text); S -> b0, A -> b1, S -> b2 with "
                      "|b0| = 2, A in b0, any b1, b2 in {epsilon, a, b}, words <= 3 (FeatureProduction objects)"},
         FCFG_FUNCS + ["CFG.contains (second reference, native)"], "the grammar derives some word of length <= 3",
         assumptions=["feature grammars: one atomic-valued feature N over the value domain {s, p}; the reference "
                      "instantiates every variable and every unannotated occurrence with every value"]),
    Cond("C18", c18_unify_chain, lambda tier: product_pins(ai=list(range(10))),
         {"quick": "two successive unifications into one receiver, a.unify(b) then a.unify(c): a, b from the 10 "
                   "structures over the features f, g, k in which two or three features share one variable (the third "
                   "absent / atomic / another variable), c from {one feature with an atom (6), a shared pair (3)}: "
                   "the receiver is the glb of all three, or the second call raises exactly on a clash",
          "thorough": "same"},
         FS_FUNCS, "always"),
]
