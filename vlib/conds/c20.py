"""C20 — export/import round trips and recursive automata reproduce the same machine."""
from typing import Tuple

from vlib import chx, enc
from vlib.chx import pinned
from vlib.oracles import nfa as O
from vlib.oracles import cfg as OC
from vlib.oracles import pda as OP
from vlib.oracles import rx as RX
from vlib.registry import Cond, product_pins
from vlib.conds.c05 import plain_fa

from pyformlang.finite_automaton import EpsilonNFA
from pyformlang.pda import PDA
from pyformlang.cfg import CFG, Variable, Terminal, Production
from pyformlang.regular_expression import Regex
from pyformlang.rsa import RecursiveAutomaton

chx.warm_networkx()
sparse_canonical = enc.sparse_canonical
pda_canonical = enc.pda_canonical
T9 = Tuple[int, int, int, int, int, int, int, int, int]
T10 = Tuple[int, int, int, int, int, int, int, int, int, int]

# JSON-representable labels that are neither epsilon spellings nor contain ' -> ' or ' / '
STATE_LABELS = [0, 1, "0", "a b", 'x"y', "été", "starting_0", "q->r", 2.5, "INITIAL_STACK_HIDDEN"]
SYMBOL_LABELS = ["a", "b", 1, "a b", 'x"y', "ε", "->", "/", 0, ""]


def plain_sorted(p):
    return {k: sorted(map(repr, v)) for k, v in p.items()}


# ----------------------------------------------------------------------------------------
# finite automata <-> networkx

def _fa_oracle(args, obs):
    edges, starts, finals, labels, syms = args
    ref = enc.ref_enfa(2, edges, starts, finals, labels=labels, syms=syms)
    want = plain_sorted({"states": ref.states, "starts": ref.starts, "finals": ref.finals,
                         "edges": [(q, (l[1] if l[0] == "s" else None), t) for q, l, t in ref.edges()]})
    tags = ["label_%r" % (x,) for x in labels]
    fails = []
    res = obs["roundtrip"]
    if res[0] == "exc":
        fails.append(chx.exc_failure("from_networkx(to_networkx())", res, tags=tags))
    else:
        got = plain_sorted(res[1])
        if got != want:
            fails.append({"kind": "shape", "op": "from_networkx(to_networkx())", "tags": tags,
                          "detail": "re-imported automaton differs: %r, expected %r" % (got, want)})
        else:
            eq, wit = O.equivalent(ref, RX.ref_from_plain(res[1]))
            if not eq:
                fails.append({"kind": "language", "op": "from_networkx(to_networkx())", "tags": tags,
                              "detail": "language differs on %r" % (wit,)})
    return bool(edges) and bool(starts) and bool(finals), fails, dict(want, labels=[repr(x) for x in labels])


def c20_fa(t: T9, m: int, starts: int, finals: int, l0: int, l1: int, s0: int, s1: int) -> bool:
    """
    pre: pinned(m=m, starts=starts, finals=finals, l0=l0, l1=l1, s0=s0, s1=s1)
    pre: ((0 <= m) & (m <= 3)) & ((0 <= starts) & (starts < 4)) & ((0 <= finals) & (finals < 4))
    pre: ((s0 == 0) | (s0 == 8)) & ((s1 == 2) | (s1 == 3) | (s1 == 4) | (s1 == 9))
    pre: ((0 <= l0) & (l0 < NSTATE)) & ((0 <= l1) & (l1 < NSTATE)) & (l0 != l1) & ((0 <= s0) & (s0 < NSYM)) & ((0 <= s1) & (s1 < NSYM)) & (s0 != s1)
    pre: enc.sparse_ranges(t, 2, 2)
    pre: sparse_canonical(t, m)
    post: _
    """
    raw = (t, m, starts, finals, l0, l1, s0, s1)
    edges = enc.decode_enfa_sparse(t, m, 2, 2)
    st = enc.mask_members(starts, 2)
    fi = enc.mask_members(finals, 2)
    labels = [STATE_LABELS[enc.pick(l0, NSTATE)], STATE_LABELS[enc.pick(l1, NSTATE)]]
    syms = [SYMBOL_LABELS[enc.pick(s0, NSYM)], SYMBOL_LABELS[enc.pick(s1, NSYM)]]
    chx.enter("c20_fa", raw)
    fa = enc.build_enfa(EpsilonNFA, 2, edges, st, fi, labels=labels, syms=syms)
    obs = {"roundtrip": chx.guarded(lambda: plain_fa(EpsilonNFA.from_networkx(fa.to_networkx())))}
    return chx.judge("C20", "c20_fa", raw, (edges, st, fi, labels, syms), obs, _fa_oracle)


# ----------------------------------------------------------------------------------------
# FST <-> networkx

FST_STATE_PAIRS = [(0, 1), ("p", "q r"), ('x"y', "0"), ("starting_0", 0), (2.5, "q->r")]
FST_IN = ["a", "epsilon", 1, "a b", 'x"y', "->", "x->y", ""]
FST_OUT = [[], ["x"], ["x", "y"], ["->", 1], ["a b", 'x"y'], ["x->y"]]


def plain_fst(f):
    trans = []
    for (q, a), targets in f.transitions.items():
        for q2, outs in targets:
            trans.append((q, a, q2, tuple(outs)))
    return {"states": list(f.states), "starts": list(f.start_states), "finals": list(f.final_states),
            "trans": trans}


def _fst_oracle(args, obs):
    trans, starts, finals = args
    states = set(starts) | set(finals)
    for q, a, q2, outs in trans:
        states |= {q, q2}
    want = plain_sorted({"states": states, "starts": starts, "finals": finals,
                         "trans": [(q, a, q2, tuple(outs)) for q, a, q2, outs in trans]})
    # parallel transitions with the same output are one transition
    want["trans"] = sorted(set(want["trans"]))
    fails = []
    tags = ["state_%r" % (x,) for x in sorted(states, key=repr)]
    res = obs["roundtrip"]
    if res[0] == "exc":
        fails.append(chx.exc_failure("FST.from_networkx(to_networkx())", res, tags=tags))
    else:
        got = plain_sorted(res[1])
        got["trans"] = sorted(set(got["trans"]))
        if got != want:
            fails.append({"kind": "shape", "op": "FST.from_networkx(to_networkx())", "tags": tags,
                          "detail": "re-imported transducer differs: %r, expected %r" % (got, want)})
    src = obs["source"]
    if src[0] == "ok":
        sv = plain_sorted(src[1])
        sv["trans"] = sorted(set(sv["trans"]))
        if sv != want:        # the harness itself: what was built is what was meant
            fails.append({"kind": "harness", "op": "build", "detail": "built %r, meant %r" % (sv, want)})
    return bool(trans) and bool(starts) and bool(finals), fails, want


def c20_fst(f0: int, i0: int, t0: int, o0: int, second: int, sl: int, starts: int, finals: int) -> bool:
    """
    pre: pinned(sl=sl, i0=i0, starts=starts, finals=finals)
    pre: ((0 <= f0) & (f0 < 2)) & ((0 <= i0) & (i0 < 8)) & ((0 <= t0) & (t0 < 2)) & ((0 <= o0) & (o0 < 6)) & ((0 <= second) & (second < 7)) & ((0 <= sl) & (sl < 5))
    pre: ((0 <= starts) & (starts < 4)) & ((0 <= finals) & (finals < 4))
    post: _
    """
    raw = (f0, i0, t0, o0, second, sl, starts, finals)
    names = FST_STATE_PAIRS[enc.pick(sl, 5)]
    q, q2 = names[enc.pick(f0, 2)], names[enc.pick(t0, 2)]
    a = FST_IN[enc.pick(i0, 8)]
    trans = [(q, a, q2, FST_OUT[enc.pick(o0, 6)])]
    sec = enc.pick(second, 7)
    if sec > 0:                      # a parallel transition: same source, input and target, another output
        trans.append((q, a, q2, FST_OUT[sec - 1]))
    st = [names[i] for i in enc.mask_members(starts, 2)]
    fi = [names[i] for i in enc.mask_members(finals, 2)]
    chx.enter("c20_fst", raw)
    from pyformlang.fst import FST
    fst = FST()
    for (x, b, y, outs) in trans:
        fst.add_transition(x, b, y, list(outs))
    for x in st:
        fst.add_start_state(x)
    for x in fi:
        fst.add_final_state(x)
    obs = {"source": chx.guarded(plain_fst, fst),
           "roundtrip": chx.guarded(lambda: plain_fst(FST.from_networkx(fst.to_networkx())))}
    return chx.judge("C20", "c20_fst", raw, (trans, st, fi), obs, _fst_oracle)


THOROUGH = chx.thorough()
NSTATE = len(STATE_LABELS)
NSYM = len(SYMBOL_LABELS)


# ----------------------------------------------------------------------------------------
# PDA <-> networkx

PDA_STATE_LABELS = [(0, 1), ("p", "q r"), ('x"y', "0"), ("starting_0", 0), (2.5, "INITIAL_STACK_HIDDEN")]
PDA_STACK_LABELS = [("Z", "X"), (0, "a b"), ('q"r', "é"), ("->", "/")]
PDA_INPUT_LABELS = [["a", "b"], [1, "x y"], ['i"j', "ε"]]


def _pda_view(r):
    return {"states": sorted(map(repr, r.states)), "start": repr(r.start), "start_stack": repr(r.start_stack),
            "finals": sorted(map(repr, r.finals)), "transitions": sorted(map(repr, r.transitions))}


def _pda_oracle(args, obs):
    spec, = args
    ref = enc.ref_pda(spec)
    want = _pda_view(ref)
    tags = ["states_%r" % (tuple(spec[0]),)]
    fails = []
    res = obs["roundtrip"]
    if res[0] == "exc":
        fails.append(chx.exc_failure("PDA.from_networkx(to_networkx())", res, tags=tags))
    else:
        got = _pda_view(res[1])
        # states that only occur as final states are not part of `states` in the library either: compare on
        # what the source PDA itself reports
        src = _pda_view(obs["source"][1]) if obs["source"][0] == "ok" else want
        if got != src:
            fails.append({"kind": "shape", "op": "PDA.from_networkx(to_networkx())", "tags": tags,
                          "detail": "re-imported PDA differs: %r, source %r" % (got, src)})
        elif OP.lang_final_state(res[1], 3) != OP.lang_final_state(ref, 3) or \
                OP.lang_empty_stack(res[1], 3) != OP.lang_empty_stack(ref, 3):
            fails.append({"kind": "language", "op": "PDA.from_networkx(to_networkx())", "tags": tags,
                          "detail": "language differs"})
    return len(spec[4]) >= 1, fails, want


def c20_pda(t: T10, m: int, finals: int, sl: int, kl: int, il: int) -> bool:
    """
    pre: pinned(m=m, finals=finals, sl=sl, kl=kl, il=il, f0=t[0], c0=t[4])
    pre: ((0 <= m) & (m <= 2)) & ((0 <= finals) & (finals < 4)) & ((0 <= sl) & (sl < 5)) & ((0 <= kl) & (kl < 4)) & ((0 <= il) & (il < 3))
    pre: pda_canonical(t, m, 2, 2)
    pre: (m < 2) | ((t[5] == t[0]) & (t[6] == t[1]))
    post: _
    """
    raw = (t, m, finals, sl, kl, il)
    trans = enc.decode_pda(t, m, 2, 2)
    occurring = {0} | {x for tr in trans for x in (tr[0], tr[3])}
    # PDA.add_final_state does not register an otherwise unused state in `states`; such an isolated,
    # unreachable state is not part of the exported graph. Final marks are put on occurring states only.
    fin = [f for f in enc.mask_members(finals, 2) if f in occurring]
    spec = enc.pda_spec(trans, fin, states=PDA_STATE_LABELS[enc.pick(sl, 5)], stack=PDA_STACK_LABELS[enc.pick(kl, 4)],
                        syms=PDA_INPUT_LABELS[enc.pick(il, 3)])
    chx.enter("c20_pda", raw)
    pda = enc.build_pda(spec)
    obs = {"source": chx.guarded(OP.extract, pda),
           "roundtrip": chx.guarded(lambda: OP.extract(PDA.from_networkx(pda.to_networkx())))}
    return chx.judge("C20", "c20_pda", raw, (spec,), obs, _pda_oracle, realize_obs=False)


# ----------------------------------------------------------------------------------------
# CFG <-> text

NAMES_Q = ["S", "a", "A", "1", "aA", "Ae"]
NAMES_T = ["S", "a", "A", "1", "aA", "Ae", "e", "A1", "1a", "ee"]
NAMES = NAMES_T if chx.thorough() else NAMES_Q
NNAMES = len(NAMES)
# production shapes over V0, V1 (codes 0, 1) and T0, T1 (codes 2, 3)
SHAPES = [
    [(0, [2, 1]), (0, []), (1, [3])],
    [(0, [1, 2]), (1, [1, 3]), (1, [3])],
    [(0, [2, 3]), (0, [1]), (1, [])],
    [(0, [2, 0, 3]), (0, [1]), (1, [2])],
]


def _text_oracle(args, obs):
    prods, vnames, tnames = args
    g = enc.ref_cfg(prods, 2, start=vnames[0], vars_=vnames, terms=tnames)
    tags = []
    if any(n[0].islower() or not n[0].isalpha() for n in vnames):
        tags.append("variable_needs_marker")
    if any(n[0].isupper() for n in tnames):
        tags.append("terminal_needs_marker")
    if set(vnames) & set(tnames):
        tags.append("variable_and_terminal_same_spelling")
    fails = []
    res = obs["roundtrip"]
    if res[0] == "exc":
        fails.append(chx.exc_failure("from_text(to_text())", res, tags=tags, text=obs.get("text")))
    else:
        got = OC.G(res[1]["start"], [(h, [tuple(s) for s in b]) for h, b in res[1]["prods"]],
                   variables=res[1]["variables"], terminals=res[1]["terminals"])
        want_l, got_l = OC.words_upto(g, 3), OC.words_upto(got, 3)
        if want_l != got_l:
            fails.append({"kind": "language", "op": "from_text(to_text())", "tags": tags, "text": obs.get("text"),
                          "detail": "language differs on %r (text %r)" % (sorted(want_l ^ got_l)[:3], obs.get("text"))})
        # same partition of the symbols into variables and terminals (for the symbols the text mentions)
        used_v = {h for h, _ in g.prods} | {s[1] for _, b in g.prods for s in b if s[0] == "V"}
        used_t = {s[1] for _, b in g.prods for s in b if s[0] == "T"}
        if not used_v <= set(got.variables) or not used_t <= set(got.terminals) or \
                (set(got.variables) - {got.start}) - used_v or set(got.terminals) - used_t:
            fails.append({"kind": "shape", "op": "from_text(to_text())", "tags": tags, "text": obs.get("text"),
                          "detail": "variables %r / terminals %r, expected %r / %r" % (
                              sorted(got.variables), sorted(got.terminals), sorted(used_v), sorted(used_t))})
    return bool(tags), fails, dict(g.describe(), tags=tags, text=obs.get("text"))


def c20_text(v0: int, v1: int, t0: int, t1: int, shape: int) -> bool:
    """
    pre: pinned(v0=v0, v1=v1, shape=shape)
    pre: ((0 <= v0) & (v0 < NNAMES)) & ((0 <= v1) & (v1 < NNAMES)) & (v0 != v1) & ((0 <= t0) & (t0 < NNAMES)) & ((0 <= t1) & (t1 < NNAMES)) & (t0 != t1)
    pre: 0 <= shape < 4
    post: _
    """
    raw = (v0, v1, t0, t1, shape)
    vnames = [NAMES[enc.pick(v0, NNAMES)], NAMES[enc.pick(v1, NNAMES)]]
    tnames = [NAMES[enc.pick(t0, NNAMES)], NAMES[enc.pick(t1, NNAMES)]]
    prods = SHAPES[enc.pick(shape, 4)]
    chx.enter("c20_text", raw)
    g = enc.build_cfg(prods, 2, start=vnames[0], vars_=vnames, terms=tnames)
    text = chx.guarded(g.to_text)
    obs = {"text": text[1] if text[0] == "ok" else None}

    def rt():
        h = CFG.from_text(g.to_text(), Variable(vnames[0]))
        prods_out = []
        for p in h.productions:
            prods_out.append((p.head.value, [("V" if isinstance(s, Variable) else "T", s.value) for s in p.body]))
        return {"start": h.start_symbol.value, "prods": prods_out,
                "variables": [x.value for x in h.variables], "terminals": [x.value for x in h.terminals]}
    obs["roundtrip"] = chx.guarded(rt)
    return chx.judge("C20", "c20_text", raw, (prods, vnames, tnames), obs, _text_oracle)


# ----------------------------------------------------------------------------------------
# recursive automata

BODY_TOKS = ["a", "b", "S", "A", "|", "*", "(", ")", "$"]
NBT = len(BODY_TOKS)


def body_text(toks, n):
    ln = enc.pick(n, len(toks) + 1)
    return " ".join(BODY_TOKS[enc.pick(toks[i], NBT)] for i in range(ln))


def _rsa_oracle(args, obs):
    lines, = args
    by_head = {}
    order = []
    for head, body in lines:
        if head not in by_head:
            by_head[head] = []
            order.append(head)
        by_head[head].append(body)
    fails = []
    tags = []
    if any(b == "" for _, b in lines):
        tags.append("empty_body")
    if any(len(v) > 1 for v in by_head.values()):
        tags.append("several_lines_per_head")
    res = obs["from_ebnf"]
    if res[0] == "exc":
        fails.append(chx.exc_failure("from_ebnf", res, tags=tags))
    else:
        boxes = res[1]
        if sorted(boxes) != sorted(by_head):
            fails.append({"kind": "shape", "op": "from_ebnf", "tags": tags,
                          "detail": "boxes for %r, expected one per head %r" % (sorted(boxes), sorted(by_head))})
        for head, bodies in by_head.items():
            if head not in boxes:
                continue
            want = None
            for b in bodies:
                cls = RX.classify(b if b != "" else "$")
                r = RX.to_ref(cls[1])
                want = r if want is None else O.union(want, r)
            got = RX.ref_from_plain(boxes[head])
            eq, wit = O.equivalent(want, got)
            if not eq:
                fails.append({"kind": "language", "op": "from_ebnf", "tags": tags,
                              "detail": "box %r differs from the alternatives %r on %r" % (head, bodies, wit)})
    if "from_regex" in obs:
        res = obs["from_regex"]
        body = lines[0][1]
        if res[0] == "exc":
            fails.append(chx.exc_failure("from_regex", res, tags=tags))
        else:
            want = RX.to_ref(RX.classify(body if body != "" else "$")[1])
            boxes = res[1]
            if sorted(boxes) != ["S"]:
                fails.append({"kind": "shape", "op": "from_regex", "tags": tags,
                              "detail": "boxes %r, expected exactly ['S']" % (sorted(boxes),)})
            else:
                eq, wit = O.equivalent(want, RX.ref_from_plain(boxes["S"]))
                if not eq:
                    fails.append({"kind": "language", "op": "from_regex", "tags": tags,
                                  "detail": "box differs from the regex %r on %r" % (body, wit)})
    return len(lines) >= 2, fails, {"lines": ["%s -> %s" % (h, b) for h, b in lines]}


def boxes_plain(rsa):
    return {nt.value: plain_fa(box.dfa) for nt, box in rsa.boxes.items()}


def c20_rsa(b0: Tuple[int, int, int], n0: int, b1: Tuple[int, int, int], n1: int, h1: int, nlines: int) -> bool:
    """
    pre: pinned(n0=n0, n1=n1, h1=h1, nlines=nlines, x0=b0[0])
    pre: ((0 <= n0) & (n0 <= 3)) & ((0 <= n1) & (n1 <= 3)) & ((0 <= h1) & (h1 < 2)) & ((1 <= nlines) & (nlines <= 2))
    pre: enc.word_ranges(b0, n0, NBT)
    pre: enc.word_ranges(b1, n1, NBT)
    pre: nlines == 2 or (n1 == 0 and h1 == 0)
    post: _
    """
    raw = (b0, n0, b1, n1, h1, nlines)
    body0 = body_text(b0, n0)
    body1 = body_text(b1, n1)
    nl = enc.pick(nlines, 3)
    lines = [("S", body0)]
    if nl == 2:
        lines.append((["S", "A"][enc.pick(h1, 2)], body1))
    with chx.NT():
        ok = all(b == "" or RX.classify(b)[0] == "wf" for _, b in lines)
    if not ok:
        return chx.assumed_away("c20_rsa")       # ill-formed right-hand sides are C05's business
    text = "\n".join("%s -> %s" % (h, b) for h, b in lines)
    chx.enter("c20_rsa", raw)
    obs = {"from_ebnf": chx.guarded(lambda: boxes_plain(RecursiveAutomaton.from_ebnf(text)))}
    if nl == 1 and body0 != "":
        obs["from_regex"] = chx.guarded(lambda: boxes_plain(RecursiveAutomaton.from_regex(Regex(body0), "S")))
    return chx.judge("C20", "c20_rsa", raw, (lines,), obs, _rsa_oracle)


def _sh_fa(tier):
    if tier == "quick":
        return product_pins(m=[2], starts=[3], finals=[2], l0=[0, 3], l1=[2, 4, 6])
    return [p for p in product_pins(m=[1, 2], starts=[3], finals=[2], l0=[0, 2, 3, 7, 8], l1=[1, 2, 4, 5, 6, 9])
            if p["l0"] != p["l1"]]      # two states need two different labels


def _sh_pda(tier):
    if tier == "quick":
        return [dict(m=2, finals=2, sl=a, kl=b, il=c, f0=0, c0=d) for (a, b, c) in ((0, 0, 0), (1, 1, 1), (2, 2, 0))
                for d in (0, 3, 4)] + [dict(m=1, finals=2, sl=3, kl=3, il=2), dict(m=1, finals=2, sl=4, kl=1, il=1)]
    return product_pins(m=[2], finals=[2], sl=[0, 1, 2, 3, 4], kl=[0, 1, 2], il=[0, 1, 2], f0=[0], c0=[0, 3, 4]) + \
        product_pins(m=[1], finals=[2], sl=[0, 1, 2, 3, 4], kl=[0, 1, 2, 3], il=[0, 1, 2])


def _sh_text(tier):
    n = len(NAMES_T if tier == "thorough" else NAMES_Q)
    return product_pins(v0=list(range(n)), shape=[0, 1, 2, 3])


def _sh_rsa(tier):
    one = product_pins(nlines=[1], n0=[0, 1, 2, 3], n1=[0], h1=[0])
    if tier == "quick":
        return one + product_pins(nlines=[2], n0=[1, 3], n1=[0, 1], h1=[0, 1], x0=[0, 2, 6])
    # an empty first body has no first token (unused slots are 0)
    return one + [p for p in product_pins(nlines=[2], n0=[0, 1, 2, 3], n1=[0, 1], h1=[0, 1], x0=list(range(NBT)))
                  if p["n0"] > 0 or p["x0"] == 0] + \
        product_pins(nlines=[2], n0=[1, 2], n1=[2], h1=[0, 1], x0=list(range(NBT)))


FUNCS = ["FiniteAutomaton.to_networkx", "FiniteAutomaton.from_networkx", "add_start_state_to_graph",
         "PDA.to_networkx", "PDA.from_networkx", "CFG.to_text", "CFG.from_text", "CFG._read_line",
         "is_special_text", "Variable.to_text", "Terminal.to_text", "RecursiveAutomaton.from_ebnf",
         "RecursiveAutomaton.from_regex", "Box"]
RULE = "at least one transition / a symbol that needs a VAR:/TER: marker / two EBNF lines"
ASSUME = ["labels come from a candidate list of JSON-representable values that are not epsilon spellings and do not "
          "contain ' -> ' or ' / '", "EBNF right-hand sides that are not well-formed regexes are assumed away",
          "terminals spelled like epsilon are outside the family"]

CONDS = [
    Cond("C20", c20_fa, _sh_fa,
         {"quick": "eps-NFA 2 states, 2 edges over 2 symbols + eps, both states start, state 1 final; state label pairs "
                   "from {0,'a b'} x {'0','x\"y','starting_0'}, symbol labels from {'a',0,1,'','a b','x\"y'}: same states, marking, transitions",
          "thorough": "more label pairs incl. 'q->r', 2.5, 'INITIAL_STACK_HIDDEN', '->', '/', greek epsilon-like"},
         FUNCS, RULE, assumptions=ASSUME),
    Cond("C20", c20_pda, _sh_pda,
         {"quick": "PDA 2 states, 2 transitions with the same source and input (different pop / target / push, pushes of "
                   "0-3 symbols) or 1 transition, 5 label-set combinations", "thorough": "5 x 4 x 3 label sets, all final masks"},
         FUNCS, RULE, assumptions=ASSUME),
    Cond("C20", c20_text, _sh_text,
         {"quick": "4 grammar shapes (eps productions, recursion) over 2 variables and 2 terminals whose spellings are "
                   "drawn independently from {S,a,A,1,aA,Ae}: language up to length 3 and variable/terminal partition",
          "thorough": "spellings from {S,a,A,1,aA,Ae,e,A1,1a,ee}"},
         FUNCS, RULE, assumptions=ASSUME),
    Cond("C20", c20_rsa, _sh_rsa,
         {"quick": "EBNF texts of 1-2 lines (heads S / S or A) whose bodies are 0-3 tokens from {a,b,S,A,|,*,(,),$}: "
                   "one box per head, box automaton == union of the head's alternatives; from_regex for one line",
          "thorough": "all first tokens"},
         FUNCS, RULE, assumptions=ASSUME),
    Cond("C20", c20_fst, lambda tier: product_pins(sl=[0, 1, 2, 3, 4], i0=list(range(8)), starts=[3], finals=[2])
         if tier == "quick" else product_pins(sl=[0, 1, 2, 3, 4], i0=list(range(8)), starts=[1, 2, 3], finals=[1, 2, 3]),
         {"quick": "transducer with 2 states (5 label pairs incl. 'starting_0', 2.5, 'q->r'), one transition with "
                   "symbolic source / target, input from {a, epsilon, 1, 'a b', 'x\"y', '->', 'x->y', ''} and output "
                   "from 6 lists (empty, multi-symbol, '->', 'x->y'), optionally a parallel transition with another "
                   "output; both states start, state 1 final: same states, marking and transitions after "
                   "FST.from_networkx(to_networkx())",
          "thorough": "all non-empty start and final masks"},
         ["FST.to_networkx", "FST.from_networkx", "FST.add_transition", "FST.transitions"],
         "transducer has a transition, a start and a final state"),
]
