"""C01 — acceptance; determinise / eps-removal / minimise / copy keep the language."""
from typing import Tuple

from vlib import chx, enc
from vlib.chx import pinned
from vlib.oracles import nfa as O
from vlib.registry import Cond, product_pins

from pyformlang.finite_automaton import (EpsilonNFA, NondeterministicFiniteAutomaton,
                                         DeterministicFiniteAutomaton)

CLASSES = [EpsilonNFA, NondeterministicFiniteAutomaton, DeterministicFiniteAutomaton]
CLASS_NAMES = ["EpsilonNFA", "NondeterministicFiniteAutomaton", "DeterministicFiniteAutomaton"]

B8 = Tuple[bool, bool, bool, bool, bool, bool, bool, bool]


def kind_ok(kind, edges, starts):
    """Validity predicate of the three classes (NFA: no epsilon edge; DFA: deterministic too)."""
    if kind == 0:
        return True
    if any(s == 0 for (_, s, _) in edges):
        return False
    if kind == 1:
        return True
    seen = set()
    for q, s, _ in edges:
        if (q, s) in seen:
            return False
        seen.add((q, s))
    return len(starts) <= 1


def shape_failures(op, ref, want_det, want_eps_free, tags=()):
    fails = []
    if want_eps_free and any(ref.eps.values()):
        fails.append({"kind": "shape", "op": op, "detail": "epsilon transition in result"})
    if want_det:
        probs = O.dfa_shape_problems(ref)
        if probs:
            fails.append({"kind": "shape", "op": op, "detail": "; ".join(probs)})
    return fails


# ----------------------------------------------------------------------------------------
# accepts(w) = run semantics

def _accepts_oracle(args, obs):
    kind, n, k, edges, starts, finals, word = args
    ref = enc.ref_enfa(n, edges, starts, finals)
    res = obs
    fails = []
    if res[0] == "exc":
        fails.append(chx.exc_failure("accepts", res, cls=CLASS_NAMES[kind]))
    else:
        want = O.accepts(ref, [x for x in word if x != "epsilon"])
        if bool(res[1]) != want:
            fails.append({"kind": "verdict", "op": "accepts", "cls": CLASS_NAMES[kind],
                          "detail": "accepts(%r)=%r, reference %r" % (word, res[1], want)})
    nontrivial = bool(edges) and bool(starts) and bool(finals)
    return nontrivial, fails, {"cls": CLASS_NAMES[kind], "edges": edges, "starts": starts,
                               "finals": finals, "word": word}


def _accepts_common(cond, raw, kind, n, k, edges, starts, finals, w, wlen):
    kd = enc.pick(kind, 3)
    table = enc.SYMS[:k] + ["z"] + (["epsilon"] if kd == 0 else [])
    word = enc.decode_word(w, wlen, table)
    if not kind_ok(kd, edges, starts):
        return chx.assumed_away(cond)
    chx.enter(cond, raw)
    fa = enc.build_enfa(CLASSES[kd], n, edges, starts, finals)
    res = chx.guarded(fa.accepts, word)
    return chx.judge("C01", cond, raw, (kd, n, k, edges, starts, finals, word), res, _accepts_oracle)


def c01_accepts_dense(kind: int, bits: B8, starts: int, finals: int,
                      w: Tuple[int, int], wlen: int) -> bool:
    """
    pre: pinned(kind=kind, starts=starts, finals=finals, b0=bits[0], b1=bits[1])
    pre: ((0 <= kind) & (kind < 3)) & ((0 <= starts) & (starts < 4)) & ((0 <= finals) & (finals < 4)) & ((0 <= wlen) & (wlen <= 2))
    pre: ((0 <= w[0]) & (w[0] < (3 if kind == 0 else 2))) & ((0 <= w[1]) & (w[1] < (3 if kind == 0 else 2)))
    pre: (wlen > 1 or w[1] == 0) and (wlen > 0 or w[0] == 0)
    post: _
    """
    edges = enc.decode_enfa_dense(bits, 2, 1)
    st = enc.mask_members(starts, 2)
    fi = enc.mask_members(finals, 2)
    kd = enc.pick(kind, 3)
    return _accepts_common("c01_accepts_dense", (kind, bits, starts, finals, w, wlen),
                           kd, 2, 1, edges, st, fi, w, wlen)


T12 = Tuple[int, int, int, int, int, int, int, int, int, int, int, int]


def c01_accepts_sparse(kind: int, n: int, k: int, t: T12, m: int, starts: int, finals: int,
                       w: Tuple[int, int, int], wlen: int) -> bool:
    """
    pre: pinned(kind=kind, n=n, k=k, m=m, starts=starts, wlen=wlen, t0=t[0], t1=t[1])
    pre: ((0 <= kind) & (kind < 3)) & ((2 <= n) & (n <= 3)) & ((1 <= k) & (k <= 2)) & ((0 <= m) & (m <= 4))
    pre: ((0 <= starts) & (starts < (4 if n == 2 else 8))) & ((0 <= finals) & (finals < (4 if n == 2 else 8))) & ((0 <= wlen) & (wlen <= 3))
    pre: enc.sparse_ranges(t, n, k)
    pre: sparse_canonical(t, m)
    pre: enc.word_ranges(w, wlen, k + 2 + (1 if kind == 0 else 0))
    post: _
    """
    nn = enc.pick(n, 4)
    kk = enc.pick(k, 3)
    edges = enc.decode_enfa_sparse(t, m, nn, kk)
    st = enc.mask_members(starts, nn)
    fi = enc.mask_members(finals, nn)
    kd = enc.pick(kind, 3)
    return _accepts_common("c01_accepts_sparse", (kind, n, k, t, m, starts, finals, w, wlen),
                           kd, nn, kk, edges, st, fi, w, wlen)


sparse_canonical = enc.sparse_canonical


# ----------------------------------------------------------------------------------------
# structural transformations

def label_tags(labels):
    """Input-class tags: state labels that collide under the library's merged-state naming scheme."""
    if not labels:
        return []
    tags = []
    strs = [str(x) for x in labels]
    if len(set(strs)) < len(set(map(repr, labels))):
        tags.append("labels_equal_under_str")
    if any(";" in x for x in strs):
        tags.append("label_contains_merge_separator")
    if any(x == "TRASH" for x in strs):
        tags.append("label_TRASH")
    if any(x == "" for x in strs):
        tags.append("label_empty_string")
    return tags


def _structural_oracle(args, obs):
    kind, n, k, edges, starts, finals, labels, order = args
    ref = enc.ref_enfa(n, edges, starts, finals, labels=labels)
    fails = []
    ltags = label_tags(labels)
    for op, res in obs:
        if res[0] == "exc":
            fails.append(chx.exc_failure(op, res, cls=CLASS_NAMES[kind]))
            continue
        got = O.extract(res[1])
        eq, wit = O.equivalent(ref, got)
        if not eq:
            fails.append({"kind": "language", "op": op, "cls": CLASS_NAMES[kind], "tags": ltags,
                          "detail": "differs on %r" % (wit,), "result": got.describe()})
        if op in ("to_deterministic", "minimize"):
            fails += shape_failures(op, got, True, True)
            try:
                if not res[1].is_deterministic():
                    fails.append({"kind": "shape", "op": op, "detail": "is_deterministic() False"})
            except Exception as e:  # noqa
                fails.append({"kind": "exception", "op": op + ".is_deterministic", "exc": type(e).__name__})
        if op == "remove_epsilon_transitions":
            fails += shape_failures(op, got, False, True)
        if op == "copy":
            if got.states != ref.states or got.starts != ref.starts or got.finals != ref.finals \
                    or sorted(map(repr, got.edges())) != sorted(map(repr, ref.edges())):
                fails.append({"kind": "shape", "op": op, "detail": "copy differs structurally",
                              "result": got.describe()})
    nontrivial = bool(edges) and bool(starts) and bool(finals)
    return nontrivial, fails, {"cls": CLASS_NAMES[kind], "edges": edges, "starts": starts,
                               "finals": finals, "labels": labels}


def _structural(cond, raw, kd, n, k, edges, st, fi, labels=None, order=None):
    if not kind_ok(kd, edges, st):
        return chx.assumed_away(cond)
    chx.enter(cond, raw)
    fa = enc.build_enfa(CLASSES[kd], n, edges, st, fi, labels=labels, order=order)
    obs = []
    for op in ("to_deterministic", "remove_epsilon_transitions", "minimize", "copy"):
        obs.append((op, chx.guarded(getattr(fa, op))))
    return chx.judge("C01", cond, raw, (kd, n, k, edges, st, fi, labels, order), obs,
                     _structural_oracle, realize_obs=False)


def c01_structural_dense(kind: int, bits: B8, starts: int, finals: int) -> bool:
    """
    pre: pinned(kind=kind, starts=starts, finals=finals, b0=bits[0], b1=bits[1], b2=bits[2])
    pre: ((0 <= kind) & (kind < 3)) & ((0 <= starts) & (starts < 4)) & ((0 <= finals) & (finals < 4))
    post: _
    """
    edges = enc.decode_enfa_dense(bits, 2, 1)
    st = enc.mask_members(starts, 2)
    fi = enc.mask_members(finals, 2)
    kd = enc.pick(kind, 3)
    return _structural("c01_structural_dense", (kind, bits, starts, finals), kd, 2, 1, edges, st, fi)


def c01_structural_sparse(kind: int, n: int, k: int, t: T12, m: int, starts: int, finals: int,
                          perm: int) -> bool:
    """
    pre: pinned(kind=kind, n=n, k=k, m=m, starts=starts, perm=perm, t0=t[0], t1=t[1])
    pre: ((0 <= kind) & (kind < 3)) & ((2 <= n) & (n <= 3)) & ((1 <= k) & (k <= 2)) & ((0 <= m) & (m <= 4))
    pre: ((0 <= starts) & (starts < (4 if n == 2 else 8))) & ((0 <= finals) & (finals < (4 if n == 2 else 8))) & ((0 <= perm) & (perm < 6))
    pre: enc.sparse_ranges(t, n, k)
    pre: sparse_canonical(t, m)
    pre: m >= 2 or perm == 0
    post: _
    """
    nn = enc.pick(n, 4)
    kk = enc.pick(k, 3)
    edges = enc.decode_enfa_sparse(t, m, nn, kk)
    st = enc.mask_members(starts, nn)
    fi = enc.mask_members(finals, nn)
    kd = enc.pick(kind, 3)
    # perm permutes both the state labels (small-int sets iterate by value natively, so this is an
    # iteration-order permutation that replays exactly) and the edge insertion order
    order = enc.perm_of(perm, 3)
    labels = order[:nn] if nn == 3 else None
    return _structural("c01_structural_sparse", (kind, n, k, t, m, starts, finals, perm),
                       kd, nn, kk, edges, st, fi, labels=labels, order=order)


def _edit_oracle(args, obs):
    kind, n, k, edges, starts, finals, removed, word = args
    after = [e for e in edges if e != removed]
    ref = enc.ref_enfa(n, after, starts, finals)
    # the states and the alphabet keep what the removed edge had introduced
    full = enc.ref_enfa(n, edges, starts, finals)
    fails = []
    tags = ["edited_by_remove_transition"]
    res = obs["accepts"]
    want = O.accepts(ref, [x for x in word if x != "epsilon"])
    if res[0] == "exc":
        fails.append(chx.exc_failure("accepts", res, tags=tags))
    elif bool(res[1]) != want:
        fails.append({"kind": "verdict", "op": "accepts", "tags": tags,
                      "detail": "after remove_transition%r accepts(%r)=%r, reference %r" % (removed, word, res[1], want)})
    for op in ("to_deterministic", "remove_epsilon_transitions", "minimize", "copy"):
        r = obs[op]
        if r[0] == "exc":
            fails.append(chx.exc_failure(op, r, tags=tags))
            continue
        got = O.extract(r[1])
        eq, wit = O.equivalent(ref, got)
        if not eq:
            fails.append({"kind": "language", "op": op, "tags": tags,
                          "detail": "after remove_transition%r: differs on %r" % (removed, wit)})
    return bool(after) and bool(starts) and bool(finals), fails, {
        "edges": edges, "removed": removed, "starts": starts, "finals": finals, "word": word}


def c01_edit(bits: B8, starts: int, finals: int, which: int, w: Tuple[int, int], wlen: int) -> bool:
    """
    pre: pinned(starts=starts, finals=finals, b0=bits[0], b1=bits[1], b2=bits[2], wlen=wlen)
    pre: ((0 <= starts) & (starts < 4)) & ((0 <= finals) & (finals < 4)) & ((0 <= which) & (which < 8))
    pre: enc.word_ranges(w, wlen, 2)
    post: _
    """
    raw = (bits, starts, finals, which, w, wlen)
    edges = enc.decode_enfa_dense(bits, 2, 1)
    st = enc.mask_members(starts, 2)
    fi = enc.mask_members(finals, 2)
    wi = enc.pick(which, 8)
    word = enc.decode_word(w, wlen, ["a", "z"])
    if wi >= len(edges):
        return chx.assumed_away("c01_edit")
    removed = edges[wi]
    chx.enter("c01_edit", raw)
    fa = enc.build_enfa(EpsilonNFA, 2, edges, st, fi)
    # the automaton answers queries first, is then edited through the public API, and must answer for what it now is
    chx.guarded(fa.accepts, word)
    chx.guarded(fa.to_deterministic)
    q, sy, t = removed
    fa.remove_transition(q, "epsilon" if sy == 0 else enc.SYMS[sy - 1], t)
    obs = {"accepts": chx.guarded(fa.accepts, word)}
    for op in ("to_deterministic", "remove_epsilon_transitions", "minimize", "copy"):
        obs[op] = chx.guarded(getattr(fa, op))
    return chx.judge("C01", "c01_edit", raw, (0, 2, 1, edges, st, fi, removed, word), obs, _edit_oracle,
                     realize_obs=False)


D5 = Tuple[int, int, int, int, int]


def c01_dfa5(b: D5, fin: int, arow: int) -> bool:
    """
    pre: pinned(arow=arow, fin=fin, b0=b[0], b1=b[1])
    pre: enc.in_range(b, 6) & ((0 <= fin) & (fin < 2)) & ((0 <= arow) & (arow < 4))
    post: _
    """
    # 5-state partial DFAs over {a,b} (see enc.dfa5_edges): sizes at which minimize() has real work to do
    edges = enc.dfa5_edges(arow, b)
    finals = enc.DFA5_FINALS[enc.pick(fin, 2)]
    return _structural("c01_dfa5", (b, fin, arow), 2, 5, 2, edges, [0], finals)


# state labels that look like the library's merged names
NAME_LABELS = [0, 1, "0", "1", "0;1", "1;0", "TRASH", "0; 1", ""]


# 3-state shapes (q, sym 0=eps 1=a, t) on which subset construction merges states in different ways
NAME_SHAPES = [
    [(0, 1, 1), (0, 1, 2)],                          # {1,2} merged
    [(0, 1, 1), (0, 1, 2), (1, 1, 0), (2, 1, 2)],    # {1,2} then {0,2}
    [(0, 0, 1), (1, 1, 2), (2, 1, 0)],               # eps closure {0,1}
    [(0, 1, 1), (1, 1, 2), (0, 1, 2), (2, 1, 1)],    # {1,2} -> {1,2}
    [(0, 1, 0), (0, 1, 1), (1, 1, 2)],               # {0,1} -> {0,1,2}
    [(0, 0, 2), (2, 1, 1), (1, 1, 1), (0, 1, 0)],    # eps to 2; {0,2} and {0,1,2}
    [(0, 1, 2), (2, 1, 1)],                          # no merge at all (names only)
    [(0, 1, 1), (1, 0, 2), (2, 1, 0), (0, 1, 2)],    # eps inside
]


def c01_names(l0: int, l1: int, l2: int, shape: int, starts: int, finals: int) -> bool:
    """
    pre: pinned(l0=l0, l1=l1, starts=starts)
    pre: ((0 <= l0) & (l0 < 9)) & ((0 <= l1) & (l1 < 9)) & ((0 <= l2) & (l2 < 9)) & (l0 != l1) & (l1 != l2) & (l0 != l2)
    pre: ((0 <= shape) & (shape < 8)) & ((1 <= starts) & (starts < 8)) & ((1 <= finals) & (finals < 8))
    post: _
    """
    i0, i1, i2 = enc.pick(l0, 9), enc.pick(l1, 9), enc.pick(l2, 9)
    labels = [NAME_LABELS[i0], NAME_LABELS[i1], NAME_LABELS[i2]]
    # State(1) == State("1") is False, but str() of both is "1": exactly the collision at stake
    edges = list(NAME_SHAPES[enc.pick(shape, 8)])
    st = enc.mask_members(starts, 3)
    fi = enc.mask_members(finals, 3)
    return _structural("c01_names", (l0, l1, l2, shape, starts, finals), 0, 3, 1, edges, st, fi,
                       labels=labels)


def _shards_accepts_dense(tier):
    if tier == "quick":
        # quick: edge (0,eps,0) absent; non-empty masks; all words
        return product_pins(kind=[0], starts=[1, 3], finals=[2, 3], b0=[False], b1=[False, True]) + \
            product_pins(kind=[1, 2], starts=[1], finals=[2, 3], b0=[False], b1=[False])
    return product_pins(kind=[0], starts=[1, 2, 3], finals=[0, 1, 2, 3], b0=[False, True], b1=[False, True]) + \
        product_pins(kind=[1, 2], starts=[1, 3], b0=[False], b1=[False])


def _shards_accepts_sparse(tier):
    return product_pins(kind=[0], n=[3], k=[1], m=[2], starts=[1, 3, 5], wlen=[2], t0=[0, 1, 2])


def _shards_structural_dense(tier):
    # NFA / DFA classes: the eps bits must be off anyway (everything else is assumed away)
    rest = product_pins(kind=[1, 2], starts=[0, 1, 2, 3], b0=[False], b1=[False], b2=[False, True])
    if tier == "quick":
        return product_pins(kind=[0], starts=[1, 2, 3], b0=[False, True], b1=[False, True], b2=[False, True]) + rest
    return product_pins(kind=[0], starts=[0, 1, 2, 3], b0=[False, True], b1=[False, True], b2=[False, True]) + rest


def _shards_structural_sparse(tier):
    return product_pins(kind=[0], n=[3], k=[1], m=[3], starts=[1, 3], perm=[0], t0=[0, 1, 2], t1=[0, 1]) + \
        product_pins(kind=[0], n=[3], k=[1], m=[3], starts=[1], perm=[3], t0=[0, 1, 2], t1=[0, 1])


def _shards_names(tier):
    if tier == "quick":
        return [p for p in product_pins(l0=[0, 2, 4, 6, 8], l1=[1, 3, 6], starts=[1, 3]) if p["l0"] != p["l1"]]
    return [p for p in product_pins(l0=list(range(9)), l1=list(range(9)), starts=[1, 3]) if p["l0"] < p["l1"]]


FUNCS = ["EpsilonNFA.accepts", "NondeterministicFiniteAutomaton.accepts",
         "DeterministicFiniteAutomaton.accepts", "EpsilonNFA.eclose", "EpsilonNFA.eclose_iterable",
         "EpsilonNFA.to_deterministic", "EpsilonNFA._to_deterministic_internal",
         "EpsilonNFA.remove_epsilon_transitions", "EpsilonNFA.minimize",
         "DeterministicFiniteAutomaton.minimize", "EpsilonNFA.copy",
         "DeterministicFiniteAutomaton.copy", "to_single_state",
         "FiniteAutomaton.add_transition", "add_start_state", "add_final_state"]

CONDS = [
    Cond("C01", c01_accepts_dense, _shards_accepts_dense,
         {"quick": "eps-NFA with 2 states over {a} (edge (0,eps,0) absent; starts {0}/{0,1}; finals {1}/{0,1}) and "
                   "NFA/DFA (start {0}) x all words of length <=2 over {a, z(outside alphabet), 'epsilon' (eps-NFA only)}",
          "thorough": "all eps-NFA with 2 states over {a} and a start state, and all NFA / DFA (start {0} or {0,1}) x all "
                      "words of length <=2 over {a, z, 'epsilon'}"},
         FUNCS, "automaton has an edge, a start and a final state"),
    Cond("C01", c01_accepts_sparse, _shards_accepts_sparse,
         {"thorough": "3 states, alphabet {a}, 2 distinct edges (eps allowed), start masks {0},{0,1},{0,2}, any final "
                      "mask, words of length 2 over {a,z,'epsilon'}"},
         FUNCS, "automaton has an edge, a start and a final state", tiers=("thorough",)),
    Cond("C01", c01_structural_dense, _shards_structural_dense,
         {"quick": "all automata with 2 states over {a} and a start state (eps-NFA: 3072; NFA/DFA: all valid ones)",
          "thorough": "same as quick"},
         FUNCS, "automaton has an edge, a start and a final state"),
    Cond("C01", c01_structural_sparse, _shards_structural_sparse,
         {"thorough": "3 states, alphabet {a}, 3 distinct edges, start masks {0},{0,1}, any final mask, identity "
                      "labels (+ one label/insertion permutation for start {0})"},
         FUNCS, "automaton has an edge, a start and a final state", tiers=("thorough",)),
    Cond("C01", c01_edit, lambda tier: (product_pins(starts=[1], finals=[2], b0=[False], b1=[False, True],
                                                      b2=[False, True], wlen=[2])
                                         if tier == "quick" else
                                         product_pins(starts=[1, 3], finals=[2, 3], b0=[False], b1=[False, True],
                                                      b2=[False, True], wlen=[1, 2])),
         {"quick": "eps-NFA with 2 states over {a}, queried, then one of its transitions (symbolic choice) removed "
                   "with remove_transition, then accepts(w) for a symbolic word of length 2 (quick; <=2 thorough) and the four "
                   "transformations, against the reference of the edited automaton",
          "thorough": "all non-empty masks"},
         FUNCS + ["FiniteAutomaton.remove_transition"], "edited automaton has an edge, a start and a final state"),
    Cond("C01", c01_names, _shards_names,
         {"quick": "8 three-state eps-NFA shapes over {a} (different merges in the subset construction) x state labels "
                   "from {0,1,'0','1','0;1','1;0','TRASH','0; 1',''} (first two labels from pinned subsets, third any) x "
                   "start masks {0},{0,1} x all non-empty final masks",
          "thorough": "all label triples with l0 < l1 (third label any)"},
         FUNCS, "automaton has an edge, a start and a final state"),
    Cond("C01", c01_dfa5, lambda tier: (product_pins(arow=[1], fin=[0, 1], b0=[0, 3, 5], b1=[0, 3]) if tier == "quick" else
                                        product_pins(arow=[0, 1, 2, 3], fin=[0, 1], b0=[0, 1, 3, 5], b1=[0, 2, 3])),
         {"quick": "DFA with 5 states over {a,b}: a-row = the permutation 0->0, 1->2->3->4->1, arbitrary b-transitions "
                   "(first two pinned to 6 combinations), finals {2,3,4} / {0,2,4}: the four transformations",
          "thorough": "4 a-rows (chain, two permutations, 5-cycle), b0 in 4 and b1 in 3 values"},
         FUNCS, "automaton has an edge, a start and a final state"),
]
