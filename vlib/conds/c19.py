"""C19 — objects behave as values: answers never depend on call history or aliasing.

A history is a symbolic sequence of op-codes applied to one subject object (and to objects derived from
it); some ops mutate the object a conversion returned. Afterwards (a) the structure snapshot of the
subject must be what it was, (b) a battery of queries must answer exactly as on a freshly built equal
object, (c) the last op's own result must equal the result of the same op on a fresh object. The
reference here is the library itself on a fresh object (the property is differential), results are
compared through the oracles' language comparison where they are automata / grammars / PDAs.
"""
from typing import Tuple

from vlib import chx, enc
from vlib.chx import pinned
from vlib.oracles import nfa as O
from vlib.oracles import cfg as OC
from vlib.oracles import pda as OP
from vlib.oracles import rx as RX
from vlib.registry import Cond, product_pins
from vlib.conds.c05 import plain_fa, plain_cfg

from pyformlang.finite_automaton import EpsilonNFA, DeterministicFiniteAutomaton, FiniteAutomaton
from pyformlang.regular_expression import Regex
from pyformlang.cfg import CFG
from pyformlang.pda import PDA

chx.warm_networkx()
L = 3


# ----------------------------------------------------------------------------------------
# views: canonical plain data of a result

def view(x):
    if isinstance(x, FiniteAutomaton):
        return ("fa", plain_fa(x))
    if isinstance(x, Regex):
        return ("fa", plain_fa(x.to_epsilon_nfa()))
    if isinstance(x, CFG):
        if x.start_symbol is None:
            return ("cfg", {"start": None, "prods": []})
        return ("cfg", plain_cfg(x))
    if isinstance(x, PDA):
        r = OP.extract(x)
        return ("pda", [sorted(map(repr, r.states)), repr(r.start), repr(r.start_stack),
                        sorted(map(repr, r.finals)), sorted(map(repr, r.transitions))],
                [list(r.states), r.start, r.start_stack, list(r.finals), r.transitions])
    if isinstance(x, (bool, int, str)) or x is None:
        return ("val", x)
    if isinstance(x, (list, tuple, set, frozenset)):
        return ("val", sorted([repr(y) for y in x]))
    return ("val", repr(x))


def same_view(a, b):
    """Equality of two views: values exactly, automata / grammars / PDAs by language."""
    if a[0] != b[0]:
        return False
    if a[0] == "val":
        return a[1] == b[1]
    if a[0] == "fa":
        return O.equivalent(RX.ref_from_plain(a[1]), RX.ref_from_plain(b[1]))[0]
    if a[0] == "cfg":
        ga = OC.G(a[1]["start"], [(h, [tuple(s) for s in bd]) for h, bd in a[1]["prods"]])
        gb = OC.G(b[1]["start"], [(h, [tuple(s) for s in bd]) for h, bd in b[1]["prods"]])
        return OC.words_upto(ga, L) == OC.words_upto(gb, L)
    if a[0] == "pda":
        ra, rb = OP.RefPDA(*[_tup(z) for z in a[2]]), OP.RefPDA(*[_tup(z) for z in b[2]])
        return OP.lang_final_state(ra, L) == OP.lang_final_state(rb, L) and \
            OP.lang_empty_stack(ra, L) == OP.lang_empty_stack(rb, L)
    return a == b


def _tup(z):
    if isinstance(z, list):
        return [tuple(_tup(y) for y in x) if isinstance(x, list) else x for x in z]
    return z


def mutate_fa(fa):
    """Mutation of an automaton RETURNED by a conversion."""
    fa.add_transition(0, "b", 1)
    fa.add_transition("m", "a", "m")
    fa.add_final_state(0)
    fa.add_start_state("m")
    fa.add_final_state("m")
    return "mutated"


# ----------------------------------------------------------------------------------------
# generic driver

def run_history(cond, prop_tags, raw, make, ops, history, battery, snapshot):
    """make() -> fresh subject; ops: list of (name, fn(subject)); history: list of op indices."""
    chx.enter(cond, raw)
    subject = make()
    snap_before = chx.guarded(snapshot, subject)
    last = None
    trace = []
    for code in history:
        name, fn = ops[code]
        trace.append(name)
        last = chx.guarded(lambda: view(fn(subject)))
    obs = {"trace": trace, "last": last,
           "snap_before": snap_before, "snap_after": chx.guarded(snapshot, subject),
           "battery": chx.guarded(battery, subject)}
    # the same on a fresh object, in the same path
    # ops whose name starts with "SUBJECT:" change the subject itself (through its public API): they are part of
    # what "a freshly built equal object" means, so they are replayed on the fresh objects; queries are not.
    def replay_mutations(obj, upto):
        for code in history[:upto]:
            name, fn = ops[code]
            if name.startswith("SUBJECT:"):
                chx.guarded(fn, obj)     # an edit the class refuses is refused on the subject too
        return obj
    if history:
        fresh = replay_mutations(make(), len(history) - 1)
        name, fn = ops[history[-1]]
        obs["last_fresh"] = chx.guarded(lambda: view(fn(fresh)))
    fresh2 = replay_mutations(make(), len(history))
    obs["battery_fresh"] = chx.guarded(battery, fresh2)
    obs["snap_fresh"] = chx.guarded(snapshot, fresh2)
    return obs


def history_oracle(args, obs):
    desc, trace_codes = args
    trace = obs["trace"]
    tags = ["last_" + trace[-1]] if trace else []
    tags += sorted({"did_" + t for t in trace})
    if isinstance(desc, dict) and "class" in desc:
        tags.append("subject_" + desc["class"])
    fails = []
    sb, sa = obs["snap_before"], obs["snap_after"]
    if sb[0] == "exc" or sa[0] == "exc":
        bad = sb if sb[0] == "exc" else sa
        fails.append(chx.exc_failure("snapshot", bad, tags=tags))
    elif any(t.startswith("SUBJECT:") for t in trace):
        sf = obs["snap_fresh"]
        if sf[0] == "ok" and sf[1] != sa[1]:
            fails.append({"kind": "mutation", "op": "snapshot", "tags": tags,
                          "detail": "after %r the structure is %r; the same changes on a fresh object give %r" % (
                              trace, sa[1], sf[1])})
    elif sb[1] != sa[1]:
        fails.append({"kind": "mutation", "op": "snapshot", "tags": tags,
                      "detail": "history %r changed the structure of its operand: %r -> %r" % (trace, sb[1], sa[1])})
    b, bf = obs["battery"], obs["battery_fresh"]
    if b[0] == "exc":
        fails.append(chx.exc_failure("battery", b, tags=tags))
    elif bf[0] == "ok":
        for (qname, v), (_, vf) in zip(b[1], bf[1]):
            if not same_view(v, vf):
                fails.append({"kind": "history", "op": qname, "tags": tags,
                              "detail": "after %r, %s answers %r; a fresh equal object answers %r" % (
                                  trace, qname, _short(v), _short(vf))})
                break
    if "last_fresh" in obs:
        la, lf = obs["last"], obs["last_fresh"]
        if la[0] != lf[0]:
            fails.append({"kind": "history", "op": trace[-1], "tags": tags,
                          "detail": "after %r, %s %s but on a fresh object it %s" % (
                              trace[:-1], trace[-1], _outcome(la), _outcome(lf))})
        elif la[0] == "ok" and not same_view(la[1], lf[1]):
            fails.append({"kind": "history", "op": trace[-1], "tags": tags,
                          "detail": "after %r, %s gives a different result than on a fresh object" % (
                              trace[:-1], trace[-1])})
    return len(trace) >= 2, fails, {"subject": desc, "history": trace}


def _short(v):
    s = repr(v)
    return s if len(s) < 160 else s[:160] + "..."


def _outcome(r):
    return "returns" if r[0] == "ok" else "raises %s" % (r[1],)


# ----------------------------------------------------------------------------------------
# automata

FA_SUBJECTS = [
    # (class index, n, edges(q, sym 0=eps 1=a 2=b, t), starts, finals)
    (0, 2, [(0, 1, 1)], [0], [1]),
    (0, 2, [(0, 1, 1), (1, 1, 0)], [0], [0]),
    (0, 2, [(0, 0, 1), (1, 1, 1)], [0], [1]),
    (0, 2, [(0, 1, 0), (0, 1, 1)], [0], [1]),
    (0, 2, [(0, 1, 1), (1, 2, 1)], [0, 1], [1]),
    (1, 2, [(0, 1, 1)], [0], [1]),
    (1, 2, [(0, 1, 1), (1, 2, 0)], [0], [0, 1]),
    (1, 2, [(0, 1, 0)], [0], []),
]
FA_CLASSES = [EpsilonNFA, DeterministicFiniteAutomaton]


def _mut(result):
    mutate_fa(result)
    return "mutated-returned-object"


FA_OPS = [
    ("accepts", lambda x: x.accepts(["a"])),
    ("is_empty", lambda x: x.is_empty()),
    ("to_deterministic", lambda x: x.to_deterministic()),
    ("minimize", lambda x: x.minimize()),
    ("copy+mutate", lambda x: _mut(x.copy())),
    ("reverse+mutate", lambda x: _mut(x.reverse())),
    ("get_complement", lambda x: x.get_complement()),
    ("intersection_self", lambda x: x.get_intersection(x)),
    ("to_regex", lambda x: x.to_regex()),
    ("remove_epsilon_transitions+mutate", lambda x: _mut(x.remove_epsilon_transitions())),
    ("get_accepted_words", lambda x: [[s.value for s in w] for w in chx.take(x.get_accepted_words(2), 30)]),
    ("union_self", lambda x: x.union(x)),
    ("to_deterministic+mutate", lambda x: _mut(x.to_deterministic())),
    ("difference_self", lambda x: x.get_difference(x)),
    ("is_equivalent_to_copy", lambda x: x.is_equivalent_to(x.copy())),
    ("to_fst", lambda x: sorted(map(repr, x.to_fst().translate(["a"])))),
    ("to_networkx", lambda x: sorted(map(repr, x.to_networkx().nodes))),
    ("minimize+mutate", lambda x: _mut(x.minimize())),
    ("other_difference_subject", lambda x: _other_fa().get_difference(x)),
    ("other_intersection_subject", lambda x: _other_fa().get_intersection(x)),
    ("get_complement+mutate", lambda x: _mut(x.get_complement())),
]


def fa_snapshot(x):
    p = plain_fa(x)
    p["symbols"] = [a.value for a in x.symbols]
    return plain_sorted(p)


def _other_fa():
    o = EpsilonNFA()
    o.add_transitions([(0, "a", 1), (1, "c", 1), (0, "d", 0)])
    o.add_start_state(0)
    o.add_final_state(1)
    return o


def plain_sorted(p):
    return {k: sorted(map(repr, v)) for k, v in p.items()}


def fa_battery(x):
    return [("accepts[]", view(x.accepts([]))), ("accepts[a]", view(x.accepts(["a"]))),
            ("accepts[a,a]", view(x.accepts(["a", "a"]))), ("accepts[b]", view(x.accepts(["b"]))),
            ("accepts[a,b]", view(x.accepts(["a", "b"]))),
            ("is_empty", view(x.is_empty())), ("is_deterministic", view(x.is_deterministic())),
            ("to_deterministic", view(x.to_deterministic())), ("minimize", view(x.minimize())),
            ("get_complement", view(x.get_complement())),
            ("get_accepted_words(2)", view([[s.value for s in w] for w in chx.take(x.get_accepted_words(2), 30)]))]


H3 = Tuple[int, int, int]


def c19_fa(subject: int, ops: H3, k: int) -> bool:
    """
    pre: pinned(subject=subject, k=k, o0=ops[0], o1=ops[1], g0=ops[0] % 4)
    pre: ((0 <= subject) & (subject < 8)) & ((1 <= k) & (k <= 3))
    pre: enc.word_ranges(ops, k, NFAOPS)
    post: _
    """
    raw = (subject, ops, k)
    s = FA_SUBJECTS[enc.pick(subject, len(FA_SUBJECTS))]
    kk = enc.pick(k, 4)
    hist = [enc.pick(ops[i], len(FA_OPS)) for i in range(kk)]
    cls = FA_CLASSES[s[0]]

    def make():
        return enc.build_enfa(cls, s[1], s[2], s[3], s[4])
    obs = run_history("c19_fa", [], raw, make, FA_OPS, hist, fa_battery, fa_snapshot)
    return chx.judge("C19", "c19_fa", raw, ({"class": cls.__name__, "edges": s[2], "starts": s[3],
                                              "finals": s[4]}, hist), obs, history_oracle)


NFAOPS = len(FA_OPS)


# automata that are queried, then edited through their own public API, then queried again
FA_EDIT_OPS = [
    ("accepts", lambda x: x.accepts(["a"])),
    ("eclose_start", lambda x: sorted(map(repr, x.eclose_iterable(x.start_states)))),
    ("is_empty", lambda x: x.is_empty()),
    ("is_deterministic", lambda x: x.is_deterministic()),
    ("minimize", lambda x: x.minimize()),
    ("remove_epsilon_transitions", lambda x: x.remove_epsilon_transitions()),
    ("to_regex", lambda x: x.to_regex()),
    ("union_self", lambda x: x.union(x)),
    ("get_complement", lambda x: x.get_complement()),
    ("SUBJECT:remove_eps_0_1", lambda x: x.remove_transition(0, "epsilon", 1)),
    ("SUBJECT:remove_a_0_1", lambda x: x.remove_transition(0, "a", 1)),
    ("SUBJECT:add_eps_1_0", lambda x: x.add_transition(1, "epsilon", 0)),
    ("SUBJECT:add_b_0_1", lambda x: x.add_transition(0, "b", 1)),
    ("SUBJECT:add_final_0", lambda x: x.add_final_state(0)),
    ("SUBJECT:remove_final_1", lambda x: x.remove_final_state(1)),
    ("SUBJECT:add_start_1", lambda x: x.add_start_state(1)),
    ("SUBJECT:remove_start_0", lambda x: x.remove_start_state(0)),
]
FA_EDIT_SUBJECTS = [
    (0, 2, [(0, 0, 1), (1, 1, 1)], [0], [1]),             # eps then a*
    (0, 2, [(0, 1, 1), (0, 0, 1), (1, 1, 0)], [0], [1]),  # eps parallel to a, back edge
    (0, 2, [(0, 1, 1)], [0], [1]),
    (1, 2, [(0, 1, 1), (1, 2, 0)], [0], [1]),             # DFA
]
NFAEDITOPS = len(FA_EDIT_OPS)


def c19_fa_edit(subject: int, ops: H3, k: int) -> bool:
    """
    pre: pinned(subject=subject, k=k, o0=ops[0], o1=ops[1], g0=ops[0] % 4)
    pre: ((0 <= subject) & (subject < 4)) & ((1 <= k) & (k <= 3))
    pre: enc.word_ranges(ops, k, NFAEDITOPS)
    post: _
    """
    raw = (subject, ops, k)
    s = FA_EDIT_SUBJECTS[enc.pick(subject, len(FA_EDIT_SUBJECTS))]
    kk = enc.pick(k, 4)
    hist = [enc.pick(ops[i], len(FA_EDIT_OPS)) for i in range(kk)]
    cls = FA_CLASSES[s[0]]

    def make():
        return enc.build_enfa(cls, s[1], s[2], s[3], s[4])
    obs = run_history("c19_fa_edit", [], raw, make, FA_EDIT_OPS, hist, fa_battery, fa_snapshot)
    return chx.judge("C19", "c19_fa_edit", raw, ({"class": cls.__name__, "edges": s[2], "starts": s[3],
                                                   "finals": s[4]}, hist), obs, history_oracle)


# ----------------------------------------------------------------------------------------
# regular expressions (the history also involves a second regex combined with the subject)

RX_SUBJECTS = ["a", "a b", "a|b", "a*", "(a b)*|b"]
RX_OTHER = "b"


def _mut_enfa(e):
    e.add_transition(0, "b", 1)
    e.add_start_state(1)
    e.add_final_state(0)
    for s in list(e.start_states):
        e.add_final_state(s)
    return "mutated-returned-automaton"


RX_OPS = [
    ("accepts", lambda r: r.accepts(["a"])),
    ("to_epsilon_nfa", lambda r: r.to_epsilon_nfa()),
    ("to_epsilon_nfa+mutate", lambda r: _mut_enfa(r.to_epsilon_nfa())),
    ("union_other.accepts", lambda r: (r | Regex(RX_OTHER)).accepts(["b"])),
    ("concatenate_other.to_epsilon_nfa", lambda r: (r + Regex(RX_OTHER)).to_epsilon_nfa()),
    ("kleene_star.accepts", lambda r: r.kleene_star().accepts(["a", "a"])),
    ("to_cfg", lambda r: r.to_cfg()),
    ("str", lambda r: str(r)),
    ("union_self.to_epsilon_nfa", lambda r: (r | r).to_epsilon_nfa()),
    ("other_union_self.accepts", lambda r: (Regex(RX_OTHER) | r).accepts(["b"])),
    ("get_tree_str", lambda r: r.get_tree_str()),
]


def rx_snapshot(r):
    return r.get_tree_str()


def rx_battery(r):
    return [("accepts[]", view(r.accepts([]))), ("accepts[a]", view(r.accepts(["a"]))),
            ("accepts[b]", view(r.accepts(["b"]))), ("accepts[a,b]", view(r.accepts(["a", "b"]))),
            ("accepts[a,a]", view(r.accepts(["a", "a"]))), ("accepts[b,b]", view(r.accepts(["b", "b"]))),
            ("to_epsilon_nfa", view(r.to_epsilon_nfa())), ("to_cfg", view(r.to_cfg())), ("str", view(str(r)))]


def c19_regex(subject: int, ops: H3, k: int) -> bool:
    """
    pre: pinned(subject=subject, k=k, o0=ops[0], o1=ops[1], g0=ops[0] % 4)
    pre: ((0 <= subject) & (subject < 5)) & ((1 <= k) & (k <= 3))
    pre: enc.word_ranges(ops, k, NRXOPS)
    post: _
    """
    raw = (subject, ops, k)
    text = RX_SUBJECTS[enc.pick(subject, len(RX_SUBJECTS))]
    kk = enc.pick(k, 4)
    hist = [enc.pick(ops[i], len(RX_OPS)) for i in range(kk)]
    obs = run_history("c19_regex", [], raw, lambda: Regex(text), RX_OPS, hist, rx_battery, rx_snapshot)
    return chx.judge("C19", "c19_regex", raw, ({"regex": text}, hist), obs, history_oracle)


NRXOPS = len(RX_OPS)


# ----------------------------------------------------------------------------------------
# grammars (caches: normal form, generating / nullable symbols, impacts)

CFG_SUBJECTS = [
    [(0, [2, 0]), (0, [3])],            # S -> a S | b
    [(0, [1, 1]), (1, [2]), (1, [])],   # S -> A A ; A -> a | eps
    [(0, [0]), (0, [2])],               # S -> S | a
    [(0, [1]), (1, [2, 1, 3]), (1, [])],  # S -> A ; A -> a A b | eps
    [(0, [2]), (1, [3])],               # S -> a ; A -> b (unreachable)
    [(0, [2]), (0, [1, 1]), (1, [])],   # S -> a | A A ; A -> eps   (generating early, nullable through the 2nd rule)
    [(0, [1, 3]), (1, [1, 1]), (1, [2])],  # S -> A b ; A -> A A | a  (infinite)
    [(0, [1, 3]), (1, [2]), (1, [])],   # S -> A b ; A -> a | eps   (nullable variable, epsilon not generated)
]


def _dfa_ab():
    d = DeterministicFiniteAutomaton()
    d.add_transitions([(0, "a", 1), (1, "b", 0), (1, "a", 1)])
    d.add_start_state(0)
    d.add_final_state(1)
    d.add_final_state(0)
    return d


SHARED = {}


def _shared_dfa():
    # one automaton object reused across ops of a history: intersections must not be disturbed by it
    if "dfa" not in SHARED:
        SHARED["dfa"] = _dfa_ab()
    return SHARED["dfa"]


def _intersect_then_mutate(g):
    d = _dfa_ab()
    first = g.intersection(d)
    d.add_transition(0, "b", 0)
    return g.intersection(d)


CFG_OPS = [
    ("contains", lambda g: g.contains(["a", "b"])),
    ("to_normal_form", lambda g: g.to_normal_form()),
    ("get_generating_symbols", lambda g: sorted(repr(x) for x in g.get_generating_symbols())),
    ("get_nullable_symbols", lambda g: sorted(repr(x) for x in g.get_nullable_symbols())),
    ("generate_epsilon", lambda g: g.generate_epsilon()),
    ("remove_useless_symbols", lambda g: g.remove_useless_symbols()),
    ("remove_epsilon", lambda g: g.remove_epsilon()),
    ("is_finite", lambda g: g.is_finite()),
    ("get_words", lambda g: [[x.value for x in w] for w in chx.take(g.get_words(3), 40)]),
    ("intersection_dfa", lambda g: g.intersection(_dfa_ab())),
    ("intersection_shared_dfa", lambda g: g.intersection(_shared_dfa())),
    ("reverse.intersection_shared_dfa", lambda g: g.reverse().intersection(_shared_dfa())),
    ("to_pda.to_cfg", lambda g: g.to_pda().to_cfg()),
    ("union_self", lambda g: g.union(g)),
    ("concatenate_self", lambda g: g.concatenate(g)),
    ("get_closure", lambda g: g.get_closure()),
    ("intersect_mutate_intersect", _intersect_then_mutate),
    ("to_normal_form.to_normal_form", lambda g: g.to_normal_form().to_normal_form()),
    ("eliminate_unit_productions", lambda g: g.eliminate_unit_productions()),
    ("is_empty", lambda g: g.is_empty()),
]


def cfg_snapshot(g):
    p = plain_cfg(g)
    return {"start": p["start"], "prods": sorted(map(repr, p["prods"])),
            "variables": sorted(repr(v.value) for v in g.variables),
            "terminals": sorted(repr(t.value) for t in g.terminals)}


CFG_WORDS = [[], ["a"], ["b"], ["a", "b"], ["a", "a"], ["a", "a", "b"], ["a", "b", "b"]]


def cfg_battery(g):
    out = [("contains%r" % (w,), view(g.contains(w))) for w in CFG_WORDS]
    out += [("generate_epsilon", view(g.generate_epsilon())), ("is_empty", view(g.is_empty())),
            ("is_finite", view(g.is_finite())),
            ("get_generating_symbols", view(sorted(repr(x) for x in g.get_generating_symbols()))),
            ("get_nullable_symbols", view(sorted(repr(x) for x in g.get_nullable_symbols()))),
            ("to_normal_form", view(g.to_normal_form())),
            ("get_words(3)", view([[x.value for x in w] for w in chx.take(g.get_words(3), 40)])),
            ("intersection_dfa", view(g.intersection(_dfa_ab())))]
    return out


def c19_cfg(subject: int, ops: H3, k: int) -> bool:
    """
    pre: pinned(subject=subject, k=k, o0=ops[0], o1=ops[1], g0=ops[0] % 4)
    pre: ((0 <= subject) & (subject < 8)) & ((1 <= k) & (k <= 3))
    pre: enc.word_ranges(ops, k, NCFGOPS)
    post: _
    """
    raw = (subject, ops, k)
    prods = CFG_SUBJECTS[enc.pick(subject, len(CFG_SUBJECTS))]
    kk = enc.pick(k, 4)
    hist = [enc.pick(ops[i], len(CFG_OPS)) for i in range(kk)]
    with chx.NT():
        SHARED.clear()
    obs = run_history("c19_cfg", [], raw, lambda: enc.build_cfg(prods, 2), CFG_OPS, hist, cfg_battery,
                      cfg_snapshot)
    return chx.judge("C19", "c19_cfg", raw, ({"productions": prods}, hist), obs, history_oracle)


NCFGOPS = len(CFG_OPS)


# ----------------------------------------------------------------------------------------
# PDAs

PDA_SUBJECTS = [
    ([(0, 1, 0, 0, 3), (0, 2, 1, 1, 0), (1, 2, 1, 1, 0), (1, 0, 0, 1, 0)], [1]),   # a^n b^n style
    ([(0, 1, 0, 1, 0)], [1]),
    ([(0, 0, 0, 0, 3), (0, 1, 1, 0, 0), (0, 0, 0, 1, 0)], [1]),
]


def _pda_mut(p):
    p.add_transition(1, "b", "Z", 2, [])
    p.add_final_state(1)
    return "mutated-returned-pda"


PDA_OPS = [
    ("to_cfg", lambda p: p.to_cfg()),
    ("to_final_state", lambda p: p.to_final_state()),
    ("to_empty_stack", lambda p: p.to_empty_stack()),
    ("to_final_state+mutate", lambda p: _pda_mut(p.to_final_state())),
    ("to_empty_stack+mutate", lambda p: _pda_mut(p.to_empty_stack())),
    ("intersection_dfa", lambda p: p.intersection(_dfa_ab())),
    ("intersection_dfa+mutate", lambda p: _pda_mut(p.intersection(_dfa_ab()))),
    ("to_final_state.to_cfg", lambda p: p.to_final_state().to_cfg()),
    ("to_networkx", lambda p: sorted(map(repr, p.to_networkx().nodes))),
    ("to_cfg.to_pda", lambda p: p.to_cfg().to_pda()),
    ("from_networkx+mutate", lambda p: _pda_mut(PDA.from_networkx(p.to_networkx()))),
    ("SUBJECT:add_transition_new_state", lambda p: p.add_transition(1, "a", "Z", "n", ["X", "Z"])),
    ("SUBJECT:add_final_state", lambda p: p.add_final_state(1)),
    # a new state that precedes the existing ones in set order (states are 1 and 2), made the start state
    ("SUBJECT:new_start_state_0", lambda p: (p.add_transition(0, "c", "Z", 1, ["Z"]), p.set_start_state(0))),
    ("to_final_state.to_empty_stack.to_cfg", lambda p: p.to_final_state().to_empty_stack().to_cfg()),
]


def pda_snapshot(p):
    return view(p)[1]


def pda_battery(p):
    return [("to_cfg", view(p.to_cfg())), ("to_final_state", view(p.to_final_state())),
            ("to_empty_stack", view(p.to_empty_stack())), ("intersection_dfa", view(p.intersection(_dfa_ab()))),
            ("self", view(p))]


def c19_pda(subject: int, ops: H3, k: int) -> bool:
    """
    pre: pinned(subject=subject, k=k, o0=ops[0], o1=ops[1], g0=ops[0] % 4)
    pre: ((0 <= subject) & (subject < 3)) & ((1 <= k) & (k <= 3))
    pre: enc.word_ranges(ops, k, NPDAOPS)
    post: _
    """
    raw = (subject, ops, k)
    trans, fin = PDA_SUBJECTS[enc.pick(subject, len(PDA_SUBJECTS))]
    kk = enc.pick(k, 4)
    hist = [enc.pick(ops[i], len(PDA_OPS)) for i in range(kk)]
    spec = enc.pda_spec(trans, [f + 0 for f in fin], states=(1, 2))
    obs = run_history("c19_pda", [], raw, lambda: enc.build_pda(spec), PDA_OPS, hist, pda_battery, pda_snapshot)
    return chx.judge("C19", "c19_pda", raw, ({"transitions": trans, "finals": fin}, hist), obs, history_oracle)


NPDAOPS = len(PDA_OPS)


def _sh(nsub, nops):
    def shards(tier):
        # k=2: split by (first op mod 4) so that no shard holds more than ~nops*nops/4 histories
        base = product_pins(subject=list(range(nsub)), k=[1]) + \
            product_pins(subject=list(range(nsub)), k=[2], g0=[0, 1, 2, 3])
        if tier == "quick":
            return base
        return base + product_pins(subject=[0], k=[3], o0=list(range(min(6, nops))))
    return shards


FUNCS = ["caches: CFG._normal_form / _generating_symbols / _nullable_symbols / _impacts / _remaining_lists",
         "Regex._enfa / _counter (shared with sons)", "State.index_cfg_converter / Variable.index_cfg_converter",
         "DeterministicFiniteAutomaton.to_deterministic / copy", "EpsilonNFA.to_regex / get_difference / copy",
         "PDA.to_cfg / to_final_state / to_empty_stack / intersection", "CFG.intersection / to_pda / reverse"]
RULE = "history of >= 2 calls"
ASSUME = ["the reference answer is the library's own answer on a freshly built equal object (the property is "
          "differential); automata / grammars / PDAs returned by conversions are compared by language (exact for "
          "automata, words of length <= 3 otherwise)",
          "subjects come from small hand-picked families per class; the op-codes of the history are the symbolic part"]

CONDS = [
    Cond("C19", c19_fa, _sh(len(FA_SUBJECTS), len(FA_OPS)),
         {"quick": "8 automata (eps-NFA and DFA class) x all histories of 1-2 calls out of 18 ops (queries, "
                   "conversions, self-operands, mutation of returned objects)",
          "thorough": "histories of up to 3 calls (3rd level: 3 subjects, every other middle op)"},
         FUNCS, RULE, assumptions=ASSUME),
    Cond("C19", c19_regex, _sh(len(RX_SUBJECTS), len(RX_OPS)),
         {"quick": "5 regexes x histories of 1-2 calls out of 11 ops incl. combination with a second regex and "
                   "mutation of the automaton returned by to_epsilon_nfa()", "thorough": "up to 3 calls"},
         FUNCS, RULE, assumptions=ASSUME),
    Cond("C19", c19_cfg, _sh(len(CFG_SUBJECTS), len(CFG_OPS)),
         {"quick": "8 grammars x histories of 1-2 calls out of 20 ops (cached queries, normal form, intersections "
                   "with a fresh / shared / mutated DFA, g and g.reverse() against the same automaton, to_pda.to_cfg)",
          "thorough": "up to 3 calls"},
         FUNCS, RULE, assumptions=ASSUME),
    Cond("C19", c19_pda, _sh(len(PDA_SUBJECTS), len(PDA_OPS)),
         {"quick": "3 PDAs x histories of 1-2 calls out of 11 ops (conversions, conversions of conversions, "
                   "mutation of returned PDAs)", "thorough": "up to 3 calls"},
         FUNCS, RULE, assumptions=ASSUME),
    Cond("C19", c19_fa_edit, _sh(len(FA_EDIT_SUBJECTS), len(FA_EDIT_OPS)),
         {"quick": "4 automata (3 eps-NFA with eps edges, 1 DFA) x histories of 1-2 calls out of 9 queries and 8 edits "
                   "of the subject itself (remove / add a transition incl. eps, add / remove a start or final state): "
                   "the edited automaton must answer like a freshly built automaton with the same edits",
          "thorough": "up to 3 calls (query, edit, query) for the first subject"},
         FUNCS + ["FiniteAutomaton.remove_transition / add_transition / add_start_state / remove_final_state",
                  "EpsilonNFA.eclose / eclose_iterable"], RULE, assumptions=ASSUME),
]
