"""C07 — PythonRegex agrees with Python's re.fullmatch on the documented subset."""
import itertools
from typing import Tuple

from vlib import chx, enc
from vlib.chx import pinned
from vlib.oracles import nfa as O
from vlib.oracles import rx as RX
from vlib.oracles import pyre as PY
from vlib.registry import Cond, product_pins
from vlib.conds.c05 import plain_fa

from pyformlang.regular_expression import PythonRegex

# strings the languages are compared on: every string of length <= 2 over CH2, length 3 over CH3
CH2 = list("abc0-+ .*|()?\\[") + ["\t", "_", "A", "^", ",", "\x0c", "\r", "\x0b", "~", "{"]
CH3 = list("ab0-")
TEST_STRINGS = [""] + CH2 + ["".join(x) for x in itertools.product(CH2, repeat=2)] + \
               ["".join(x) for x in itertools.product(CH3, repeat=3)]
REAL_ACCEPTS = ["", "a", "ab", "b0", "aa", "-"]


def _oracle(args, obs):
    p = args
    t = PY.tags(p)
    fails = []
    if not PY.compiles(p):
        if obs["build"][0] == "ok":
            fails.append({"kind": "verdict", "op": "PythonRegex", "tags": t + ["python_rejects"],
                          "detail": "%r is rejected by re.compile but accepted" % (p,)})
        return False, fails, {"pattern": p, "class": "rejected_by_python"}
    if not PY.in_documented_subset(p):
        return False, [], {"pattern": p, "class": "outside_documented_subset"}
    b = obs["build"]
    if b[0] == "exc":
        fails.append(chx.exc_failure("PythonRegex", b, tags=t, pattern=p))
        return True, fails, {"pattern": p, "class": "documented"}
    en = obs["enfa"]
    if en[0] == "exc":
        fails.append(chx.exc_failure("to_epsilon_nfa", en, tags=t, pattern=p))
    else:
        ref = RX.ref_from_plain(en[1])
        for s in TEST_STRINGS:
            want = PY.fullmatch(p, s)
            got = O.accepts(ref, list(s))
            if got != want:
                fails.append({"kind": "language", "op": "accepts", "tags": t, "pattern": p,
                              "detail": "PythonRegex(%r) %s %r but re.fullmatch %s" % (
                                  p, "accepts" if got else "rejects", s, "matches" if want else "does not")})
                break
    ac = obs["accepts"]
    if ac[0] == "exc":
        fails.append(chx.exc_failure("accepts", ac, tags=t, pattern=p))
    else:
        for s, got in zip(REAL_ACCEPTS, ac[1]):
            if got != PY.fullmatch(p, s):
                fails.append({"kind": "verdict", "op": "accepts", "tags": t, "pattern": p,
                              "detail": "PythonRegex(%r).accepts(%r) = %r" % (p, s, got)})
                break
    return len(p) >= 2, fails, {"pattern": p, "class": "documented"}


def _run(cond, raw, p, realize=True):
    with chx.NT():
        skip = PY.compiles(p) and not PY.in_documented_subset(p)
    if skip:
        return chx.assumed_away(cond)
    chx.enter(cond, raw, realize=realize)
    b = chx.guarded(PythonRegex, p)
    obs = {"build": (b[0], None) if b[0] == "ok" else b}
    if b[0] == "ok":
        rx = b[1]
        # PythonRegex-specific code is the constructor (the string rewriting + Regex parse), which runs under the
        # symbolic interpreter above. The Thompson construction and accepts() of the resulting Regex (C05's
        # subject) run natively here: the 100-way unions behind '.', [^...] and \w exceed CPython's C recursion
        # limit under tracing (RecursionError that does not exist natively).
        with chx.NT():
            obs["enfa"] = chx.guarded(lambda: plain_fa(rx.to_epsilon_nfa()))
            obs["accepts"] = chx.guarded(lambda: [bool(rx.accepts(s)) for s in REAL_ACCEPTS])
    return chx.judge("C07", cond, raw, p, obs, _oracle)


TOK_Q = ["a", "b", "|", "(", ")", "*", "+", "?", "{2}", "{1,2}", "[ab]", "[a-c]", "\\d", "\\.", "{0,2}", "\\)"]
TOK_T = ["a", "b", "-", "|", "(", ")", "*", "+", "?", "{0}", "{2}", "{1,2}", "{2,2}", "{0,2}", "[ab]",
         "[a-c]", "[a\\-c]", "[+*()?.|]", "\\d", "\\s", "\\.", "\\*", "\\+", "\\?", "\\|", "\\(", "\\[",
         "\\\\", "\\)"]
TOK4 = ["a", "b", "|", "(", ")", "*", "+", "?", "{2}", "[ab]"]
TOK3 = TOK_T if chx.thorough() else TOK_Q
NTOK3 = len(TOK3)


def join_tokens(table, toks, n):
    ln = enc.pick(n, len(toks) + 1)
    return "".join(table[enc.pick(toks[i], len(table))] for i in range(ln))


def c07_tokens3(toks: Tuple[int, int, int], n: int) -> bool:
    """
    pre: pinned(n=n, t0=toks[0], t1=toks[1], g1=toks[1] % 4)
    pre: 0 <= n <= 3
    pre: enc.word_ranges(toks, n, NTOK3)
    post: _
    """
    raw = (toks, n)
    p = join_tokens(TOK3, toks, n)
    return _run("c07_tokens3", raw, p)


def c07_tokens4(toks: Tuple[int, int, int, int]) -> bool:
    """
    pre: pinned(t0=toks[0], t1=toks[1])
    pre: enc.in_range(toks, 10)
    post: _
    """
    raw = (toks,)
    p = join_tokens(TOK4, toks, 4)
    return _run("c07_tokens4", raw, p)


TOK_D = [".", "a", "[^a]", "\\s", "\\w", "*", "|", "[^\\d]"]


def c07_wide(toks: Tuple[int, int], n: int) -> bool:
    """
    pre: pinned(n=n, t0=toks[0])
    pre: 1 <= n <= 2
    pre: enc.word_ranges(toks, n, 8)
    post: _
    """
    raw = (toks, n)
    p = join_tokens(TOK_D, toks, n)
    return _run("c07_wide", raw, p)


ALPHA_S = "ab|*+?()[]^-{}1,\\."


def c07_chars(s: str) -> bool:
    """
    pre: pinned(n=len(s), first=s[:1])
    pre: len(s) <= MAXLEN
    pre: all(c in ALPHA_S for c in s)
    post: _
    """
    p = chx.R(s)     # the pattern reaches re.compile (C code) first: the solver realises it here
    return _run("c07_chars", (s,), p)


MAXLEN = 3 if chx.thorough() else 2


def _sh_tok3(tier):
    nt = len(TOK_T if tier == "thorough" else TOK_Q)
    if tier == "quick":
        return product_pins(n=[3], t0=list(range(nt))) + [{"n": 2}, {"n": 1}, {"n": 0}]
    return product_pins(n=[3], t0=list(range(nt)), g1=[0, 1, 2, 3]) + [{"n": 2}, {"n": 1}, {"n": 0}]


def _sh_wide(tier):
    return [{"n": 1}] + product_pins(n=[2], t0=list(range(8)))


def _sh_tok4(tier):
    if tier == "quick":
        return product_pins(t0=[0, 3, 9], t1=[0, 2, 4, 5, 8]) + [{"t0": 3, "t1": 9}, {"t0": 3, "t1": 3}]
    return product_pins(t0=list(range(10)), t1=list(range(10)))


def _sh_chars(tier):
    if tier == "quick":
        return [{"n": 0, "first": ""}, {"n": 1}] + product_pins(n=[2], first=list(ALPHA_S))
    return [{"n": 0, "first": ""}, {"n": 1}] + product_pins(n=[2, 3], first=list(ALPHA_S))


FUNCS = ["PythonRegex.__init__", "PythonRegex._replace_shortcuts", "PythonRegex._escape_in_brackets",
         "PythonRegex._preprocess_brackets", "PythonRegex._preprocess_brackets_content",
         "PythonRegex._preprocess_negation", "PythonRegex._preprocess_positive_closure",
         "PythonRegex._add_repetition", "PythonRegex._preprocess_optional", "PythonRegex._separate",
         "PythonRegex._recombine", "Regex.__init__", "Regex.to_epsilon_nfa", "Regex.accepts"]
RULE = "pattern of >= 2 characters inside the documented subset that Python compiles"
ASSUME = ["the constructor PythonRegex(p) runs under the symbolic interpreter; to_epsilon_nfa()/accepts() of the built "
          "object run natively (100-way unions exceed the C recursion limit under tracing)",
          "patterns that compile but use constructs outside the documented subset (lazy/possessive quantifiers, "
          "anchors, look-around, back-references, flags, {m,}/{,n}, a literal '{', escapes other than metacharacters "
          "and \\d \\s \\w) are assumed away; membership is decided on CPython's own parse tree (re._parser)",
          "languages are compared on every string of length <=2 over 20 printable characters and length 3 over "
          "{a,b,0,-} (oracle side, on the extracted automaton) and through the real accepts() on 6 strings"]

CONDS = [
    Cond("C07", c07_tokens3, _sh_tok3,
         {"quick": "0-3 tokens from {a,b,|,(,),*,+,?,{2},{1,2},{0,2},[ab],[a-c],\\d,\\.,\\)}",
          "thorough": "0-3 tokens from a 29-token table incl. \\s, {0}, {2,2}, {0,2}, [a\\-c], [+*()?.|], escaped "
                      "metacharacters (the tokens that expand to the whole alphabet are in c07_wide)"},
         FUNCS, RULE, assumptions=ASSUME, per_path_timeout=120),
    Cond("C07", c07_wide, _sh_wide,
         {"quick": "1-2 tokens from {., a, [^a], \\s, \\w, *, |, [^\\d]}: the constructs that expand to the whole "
                   "printable alphabet (compared on strings containing \\t \\r \\x0b \\x0c too)",
          "thorough": "same"},
         FUNCS, RULE, assumptions=ASSUME, per_path_timeout=240),
    Cond("C07", c07_tokens4, _sh_tok4,
         {"quick": "4 tokens from {a,b,|,(,),*,+,?,{2},[ab]}: first in {a,(,[ab]}, second in {a,|,),*,{2}}, plus the prefixes '((' and '([ab]'",
          "thorough": "all 10^4 four-token patterns"},
         FUNCS, RULE, assumptions=ASSUME),
    Cond("C07", c07_chars, _sh_chars,
         {"quick": "one symbolic str, len <= 2 over 'ab|*+?()[]^-{}1,\\.' (realised by the solver at re.compile)",
          "thorough": "len <= 3"},
         FUNCS, RULE, assumptions=ASSUME),
]
