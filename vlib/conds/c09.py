"""C09 — CFG clean-up and Chomsky normal form keep the language and the promised shape."""
from typing import Tuple

from vlib import chx, enc
from vlib.chx import pinned
from vlib.oracles import cfg as OC
from vlib.registry import Cond, product_pins, cfg_pins
from vlib.conds.c08 import grammar_tags, P2, P3, P2B3

cfg_canonical = enc.cfg_canonical
L = 4

P2B4 = Tuple[int, int, int, int, int, int, int, int, int, int, int, int]   # 2 productions, bodies <= 4


def _oracle(args, obs):
    prods, v, order = args
    return _judge(enc.ref_cfg(prods, v), obs, len(prods))


def _judge(g, obs, nprods):
    prods = [None] * nprods
    tags = grammar_tags(g)
    lang = OC.words_upto(g, L)
    no_eps = lang - {()}
    fails = []

    def check(op, want_lang, shape):
        res = obs[op]
        if res[0] == "exc":
            fails.append(chx.exc_failure(op, res, tags=tags))
            return
        got = OC.extract(res[1])
        gl = OC.words_upto(got, L)
        if gl != want_lang:
            fails.append({"kind": "language", "op": op, "tags": tags,
                          "detail": "differs on %r" % (sorted(gl ^ want_lang, key=repr)[:3],), "result": got.describe()})
        for problem in shape(got):
            fails.append({"kind": "shape", "op": op, "tags": tags, "detail": problem, "result": got.describe()})

    def shape_useless(got):
        # every symbol of the result is generating and reachable; the start symbol itself is exempt
        # (it has to be kept even when the language is empty)
        bad = [s for s in OC.useless_symbols_present(got) if s != ("V", got.start)]
        return ["useless symbols left: %r" % (bad,)] if bad else []

    def shape_eps(got):
        return ["epsilon production left"] if OC.has_epsilon_production(got) else []

    def shape_unit(got):
        return ["unit production left"] if OC.has_unit_production(got) else []

    def shape_cnf(got):
        out = []
        if not OC.is_cnf(got):
            out.append("a production is in neither Chomsky form")
        return out

    check("remove_useless_symbols", lang, shape_useless)
    check("remove_epsilon", no_eps, shape_eps)
    check("eliminate_unit_productions", lang, shape_unit)
    check("to_normal_form", no_eps, shape_cnf)
    inf = obs["is_normal_form"]
    if inf[0] == "exc":
        fails.append(chx.exc_failure("to_normal_form.is_normal_form", inf, tags=tags))
    elif inf[1] is not True and obs["to_normal_form"][0] == "ok":
        fails.append({"kind": "shape", "op": "to_normal_form", "tags": tags,
                      "detail": "to_normal_form().is_normal_form() = %r" % (inf[1],)})
    return len(prods) >= 2 and bool(lang), fails, dict(g.describe(), tags=tags)


def _run(cond, raw, prods, v, order=None):
    chx.enter(cond, raw)
    obs = {}
    for op in ("remove_useless_symbols", "remove_epsilon", "eliminate_unit_productions", "to_normal_form"):
        g = enc.build_cfg(prods, v, order=order, as_list=order is not None)   # fresh object per operation
        obs[op] = chx.guarded(getattr(g, op))
    nf = obs["to_normal_form"]
    obs["is_normal_form"] = chx.guarded(nf[1].is_normal_form) if nf[0] == "ok" else ("ok", None)
    return chx.judge("C09", cond, raw, (prods, v, order), obs, _oracle, realize_obs=False)


def c09_p2(t: P2, p: int) -> bool:
    """
    pre: pinned(p=p, h0=t[0], l0=t[1])
    pre: 0 <= p <= 2
    pre: cfg_canonical(t, p, 2, 2, 2)
    post: _
    """
    prods = enc.decode_cfg(t, p, 2, 2, 2)
    return _run("c09_p2", (t, p), prods, 2)


def c09_p3(t: P3, p: int, perm: int) -> bool:
    """
    pre: pinned(h0=t[0], l0=t[1], s0=t[2], h1=t[4], perm=perm)
    pre: (p == 3) & ((0 <= perm) & (perm < 6))
    pre: cfg_canonical(t, p, 2, 2, 2)
    post: _
    """
    prods = enc.decode_cfg(t, p, 2, 2, 2)
    order = enc.perm_of(perm, 3)
    return _run("c09_p3", (t, p, perm), prods, 2, order=order)


def c09_b4(t: P2B4, p: int) -> bool:
    """
    pre: pinned(l0=t[1], l1=t[7], s0=t[2], s1=t[3], h1=t[6])
    pre: p == 2
    pre: cfg_canonical(t, p, 2, 2, 4)
    pre: (t[1] >= 3) & (t[7] >= 3)
    post: _
    """
    prods = enc.decode_cfg(t, p, 2, 2, 4)
    return _run("c09_b4", (t, p), prods, 2)


def _chain_oracle(args, obs):
    from vlib.conds import chain
    prods, v, order = args
    return _judge(chain.ref(prods), obs, len(prods))


def c09_chain(sd: bool, aa: bool, bmask: int, cmask: int) -> bool:
    """
    pre: pinned(sd=sd, aa=aa, bmask=bmask)
    pre: ((0 <= bmask) & (bmask < 16)) & ((0 <= cmask) & (cmask < 8))
    post: _
    """
    from vlib.conds import chain
    raw = (sd, aa, bmask, cmask)
    prods = chain.decode_chain(sd, aa, bmask, cmask)
    chx.enter("c09_chain", raw)
    obs = {}
    for op in ("remove_useless_symbols", "remove_epsilon", "eliminate_unit_productions", "to_normal_form"):
        g = chain.build(prods)
        obs[op] = chx.guarded(getattr(g, op))
    nf = obs["to_normal_form"]
    obs["is_normal_form"] = chx.guarded(nf[1].is_normal_form) if nf[0] == "ok" else ("ok", None)
    return chx.judge("C09", "c09_chain", raw, (prods, 4, None), obs, _chain_oracle, realize_obs=False)


S4 = Tuple[int, int, int, int, int, int, int, int]


def c09_b4s(b: S4) -> bool:
    """
    pre: pinned(x0=b[0], x1=b[1], y0=b[4])
    pre: enc.in_range(b, 3)
    pre: (b[0], b[1], b[2], b[3]) < (b[4], b[5], b[6], b[7])
    post: _
    """
    raw = (b,)
    # one variable S (code 0) and terminals a, b (codes 1, 2): two productions S -> 4 symbols each
    body0 = [enc.pick(b[i], 3) for i in range(4)]
    body1 = [enc.pick(b[4 + i], 3) for i in range(4)]
    prods = [(0, body0), (0, body1), (0, [1])]
    chx.enter("c09_b4s", raw)
    obs = {}
    for op in ("remove_useless_symbols", "remove_epsilon", "eliminate_unit_productions", "to_normal_form"):
        g = enc.build_cfg(prods, 1)
        obs[op] = chx.guarded(getattr(g, op))
    nf = obs["to_normal_form"]
    obs["is_normal_form"] = chx.guarded(nf[1].is_normal_form) if nf[0] == "ok" else ("ok", None)
    return chx.judge("C09", "c09_b4s", raw, (prods, 1, None), obs, _oracle, realize_obs=False)


# variables of the input that are named like the fresh variables to_normal_form invents
FRESH_NAMES = [("C#CNF#1", "C#CNF#2"), ("a#CNF#", "b#CNF#"), ("C#CNF#2", "a#CNF#")]


def _names_oracle(args, obs):
    prods, names = args
    return _judge(enc.ref_cfg(prods, 3, vars_=["S"] + list(names)), obs, len(prods))


def c09_names(b: Tuple[int, int, int, int], which: int) -> bool:
    """
    pre: pinned(which=which, x0=b[0], x1=b[1])
    pre: enc.in_range(b, 5) & ((0 <= which) & (which < 3))
    post: _
    """
    raw = (b, which)
    names = FRESH_NAMES[enc.pick(which, 3)]
    # codes: 0 S, 1 / 2 the two variables with library-like names, 3 a, 4 b
    body = [enc.pick(b[i], 5) for i in range(4)]
    prods = [(0, body), (0, [3]), (1, [4]), (2, [3])]
    chx.enter("c09_names", raw)
    obs = {}
    vars_ = ["S"] + list(names)
    for op in ("remove_useless_symbols", "remove_epsilon", "eliminate_unit_productions", "to_normal_form"):
        g = enc.build_cfg(prods, 3, vars_=vars_)
        obs[op] = chx.guarded(getattr(g, op))
    nf = obs["to_normal_form"]
    obs["is_normal_form"] = chx.guarded(nf[1].is_normal_form) if nf[0] == "ok" else ("ok", None)
    return chx.judge("C09", "c09_names", raw, (prods, names), obs, _names_oracle, realize_obs=False)


# terminals whose values differ but print alike: the a#CNF# helper variables are named after the text
SAMETEXT = [(1, "1"), (None, "None")]


def _st_oracle(args, obs):
    prods, terms = args
    return _judge(enc.ref_cfg(prods, 2, terms=list(terms)), obs, len(prods))


def c09_sametext(t: P2, p: int, which: int) -> bool:
    """
    pre: pinned(p=p, h0=t[0], l0=t[1], which=which)
    pre: (p == 2) & ((0 <= which) & (which < 2))
    pre: cfg_canonical(t, p, 2, 2, 2)
    post: _
    """
    raw = (t, p, which)
    prods = enc.decode_cfg(t, p, 2, 2, 2)
    terms = SAMETEXT[enc.pick(which, 2)]
    chx.enter("c09_sametext", raw)
    obs = {}
    for op in ("remove_useless_symbols", "remove_epsilon", "eliminate_unit_productions", "to_normal_form"):
        g = enc.build_cfg(prods, 2, terms=list(terms))
        obs[op] = chx.guarded(getattr(g, op))
    nf = obs["to_normal_form"]
    obs["is_normal_form"] = chx.guarded(nf[1].is_normal_form) if nf[0] == "ok" else ("ok", None)
    return chx.judge("C09", "c09_sametext", raw, (prods, terms), obs, _st_oracle, realize_obs=False)


def _sh_p2(tier):
    return [{"p": 0}, {"p": 1}] + product_pins(p=[2], h0=[0, 1], l0=[0, 1, 2])


def _sh_p3(tier):
    return cfg_pins(product_pins(h0=[0, 1], l0=[0, 1, 2], s0=[0, 1, 2, 3], h1=[0, 1], perm=[0]) +
                    product_pins(h0=[1], l0=[0, 1, 2], s0=[0, 1, 2, 3], h1=[1], perm=[5]))


def _sh_b4(tier):
    if tier == "quick":
        return product_pins(l0=[3], l1=[3], s0=[1, 2], s1=[0, 1, 2, 3], h1=[0, 1])
    return product_pins(l0=[3], l1=[3, 4], s0=[1, 2], s1=[0, 1, 2, 3], h1=[0, 1])


FUNCS = ["CFG.remove_useless_symbols", "CFG.remove_epsilon", "CFG.eliminate_unit_productions",
         "CFG.to_normal_form", "CFG.get_unit_pairs", "CFG._get_generating_or_nullable",
         "CFG.get_reachable_symbols", "CFG._get_productions_with_only_single_terminals",
         "CFG._decompose_productions", "remove_nullable_production", "CFG.is_normal_form"]
RULE = "grammar with >= 2 productions and a non-empty language up to length 4"
ASSUME = ["languages compared on all words of length <= 4 (oracle fixpoint on the extracted productions)",
          "remove_useless_symbols: the start symbol is exempt from 'only generating symbols' (it is kept when the "
          "language is empty)"]

CONDS = [
    Cond("C09", c09_p2, _sh_p2,
         {"quick": "all 904 grammars with <=2 productions over {S,A},{a,b}, bodies <=2: each of the 4 transformations "
                   "on a fresh object; language up to length 4 and promised shape", "thorough": "same"},
         FUNCS, RULE, assumptions=ASSUME),
    Cond("C09", c09_p3, _sh_p3,
         {"thorough": "all grammars with 3 distinct productions x 2 insertion orders of the production list"},
         FUNCS, RULE, assumptions=ASSUME, tiers=("thorough",)),
    Cond("C09", c09_chain, lambda tier: __import__("vlib.conds.chain", fromlist=["x"]).shards(tier),
         {"quick": "the 512 'nullable chain' grammars over 4 variables (see vlib/conds/chain.py)", "thorough": "same"},
         FUNCS, RULE, assumptions=ASSUME),
    Cond("C09", c09_b4s, lambda tier: (product_pins(x0=[1], x1=[1, 2], y0=[1, 2]) if tier == "quick" else
                                       product_pins(x0=[0, 1, 2], x1=[0, 1, 2], y0=[0, 1, 2])),
         {"quick": "S -> x1x2x3x4 | y1y2y3y4 | a over {S,a,b} with x1 = a (two bodies of length 4: suffix sharing at "
                   "every depth of the binarisation)", "thorough": "all pairs of bodies of length 4 over {S,a,b}"},
         FUNCS, RULE, assumptions=ASSUME),
    Cond("C09", c09_b4, _sh_b4,
         {"quick": "2 productions with bodies of length 3 (shared suffixes possible), first body starting with A or a",
          "thorough": "2 productions with bodies of length 3-4"},
         FUNCS, RULE, assumptions=ASSUME),
    Cond("C09", c09_names, lambda tier: product_pins(which=[0, 1, 2], x0=[0, 1, 2, 3, 4], x1=[1, 2, 3]) if tier == "quick"
         else product_pins(which=[0, 1, 2], x0=[0, 1, 2, 3, 4], x1=[0, 1, 2, 3, 4]),
         {"quick": "S -> x0 x1 x2 x3 | a, V1 -> b, V2 -> a where (V1, V2) are named like the variables to_normal_form "
                   "invents ('C#CNF#1','C#CNF#2' / 'a#CNF#','b#CNF#' / 'C#CNF#2','a#CNF#'), symbols from {S,V1,V2,a,b}, "
                   "second symbol not S / b",
          "thorough": "every body of length 4 over {S,V1,V2,a,b}"},
         FUNCS + ["CFG._get_next_free_variable", "CFG._get_productions_with_only_single_terminals"], RULE, assumptions=ASSUME),
    Cond("C09", c09_sametext, lambda tier: product_pins(p=[2], h0=[0], l0=[2], which=[0, 1]) if tier == "quick"
         else product_pins(p=[2], h0=[0, 1], l0=[0, 1, 2], which=[0, 1]),
         {"quick": "the grammars of c09_p2 with 2 productions whose first production is S -> (2 symbols), over the "
                   "terminals 1 / '1' or None / 'None' (values differ, texts agree: the helper variables "
                   "to_normal_form names after a terminal's text must stay one per terminal)",
          "thorough": "all grammars with 2 productions over these terminal pairs"},
         FUNCS, RULE, assumptions=ASSUME),
]
