"""C06 — automaton -> regular expression (state elimination) preserves the language."""
from typing import Tuple

from vlib import chx, enc
from vlib.chx import pinned
from vlib.oracles import nfa as O
from vlib.registry import Cond, product_pins

from pyformlang.finite_automaton import EpsilonNFA

sparse_canonical = enc.sparse_canonical
T12 = Tuple[int, int, int, int, int, int, int, int, int, int, int, int]
SYMS = ["a", "b"]


def tags_of(ref):
    tags = []
    if len(ref.starts) > 1:
        tags.append("several_start_states")
    if not ref.starts:
        tags.append("no_start_state")
    if not ref.finals:
        tags.append("no_final_state")
    if len(ref.finals) > 1:
        tags.append("several_final_states")
    if ref.starts & ref.finals:
        tags.append("start_is_final")
    if any(ref.eps.values()):
        tags.append("has_epsilon")
    if any(q in ts for (q, a), ts in ref.delta.items()) or any(q in ts for q, ts in ref.eps.items()):
        tags.append("self_loop")
    return tags


def _toregex_oracle(args, obs):
    n, k, edges, starts, finals, labels, order, word = args
    ref = enc.ref_enfa(n, edges, starts, finals, labels=labels, syms=SYMS)
    tags = tags_of(ref)
    fails = []
    res = obs["to_regex"]
    if res[0] == "exc":
        fails.append(chx.exc_failure("to_regex", res, tags=tags))
    else:
        en = obs["enfa"]
        if en[0] == "exc":
            fails.append(chx.exc_failure("to_regex.to_epsilon_nfa", en, tags=tags, regex=obs.get("text")))
        else:
            got = O.extract(en[1])
            eq, wit = O.equivalent(ref, got)
            if not eq:
                fails.append({"kind": "language", "op": "to_regex", "tags": tags, "regex": obs.get("text"),
                              "detail": "regex %r differs from the automaton on %r" % (obs.get("text"), wit)})
        ac = obs["accepts"]
        if ac[0] == "exc":
            fails.append(chx.exc_failure("to_regex.accepts", ac, tags=tags))
        elif bool(ac[1]) != O.accepts(ref, word):
            fails.append({"kind": "verdict", "op": "to_regex.accepts", "tags": tags, "regex": obs.get("text"),
                          "detail": "regex.accepts(%r)=%r, automaton %r" % (word, ac[1], O.accepts(ref, word))})
    nontrivial = bool(edges) and bool(starts) and bool(finals)
    return nontrivial, fails, dict(ref.describe(), tags=tags, regex=obs.get("text"))


def _run(cond, raw, n, k, edges, st, fi, labels, order, word):
    chx.enter(cond, raw)
    A = enc.build_enfa(EpsilonNFA, n, edges, st, fi, labels=labels, order=order, syms=SYMS)
    res = chx.guarded(A.to_regex)
    obs = {"to_regex": res}
    if res[0] == "ok":
        rx = res[1]
        t = chx.guarded(str, rx)
        obs["text"] = t[1] if t[0] == "ok" else None
        obs["enfa"] = chx.guarded(rx.to_epsilon_nfa)
        obs["accepts"] = chx.guarded(rx.accepts, word)
    return chx.judge("C06", cond, raw, (n, k, edges, st, fi, labels, order, word), obs, _toregex_oracle,
                     realize_obs=False)


def c06_to_regex(n: int, k: int, t: T12, m: int, starts: int, finals: int, perm: int,
                 w: Tuple[int, int], wlen: int) -> bool:
    """
    pre: pinned(n=n, k=k, m=m, starts=starts, finals=finals, perm=perm, t0=t[0], t1=t[1], wlen=wlen)
    pre: ((2 <= n) & (n <= 3)) & ((1 <= k) & (k <= 2)) & ((0 <= m) & (m <= 4)) & ((0 <= perm) & (perm < 6)) & ((0 <= wlen) & (wlen <= 2))
    pre: ((0 <= starts) & (starts < (4 if n == 2 else 8))) & ((0 <= finals) & (finals < (4 if n == 2 else 8)))
    pre: enc.sparse_ranges(t, n, k)
    pre: sparse_canonical(t, m)
    pre: n == 3 or perm == 0
    pre: enc.word_ranges(w, wlen, k)
    post: _
    """
    raw = (n, k, t, m, starts, finals, perm, w, wlen)
    nn = enc.pick(n, 4)
    kk = enc.pick(k, 3)
    edges = enc.decode_enfa_sparse(t, m, nn, kk)
    st = enc.mask_members(starts, nn)
    fi = enc.mask_members(finals, nn)
    order = enc.perm_of(perm, 3)
    labels = order if nn == 3 else None     # label permutation = elimination-order permutation
    word = enc.decode_word(w, wlen, SYMS[:kk])
    return _run("c06_to_regex", raw, nn, kk, edges, st, fi, labels, order, word)


# ----------------------------------------------------------------------------------------
# the closed form for two-state automata: four edge labels from {absent, eps, a, b}

def c06_two_state(ss: int, se: int, es: int, ee: int, same: int) -> bool:
    """
    pre: pinned(ss=ss, se=se, same=same)
    pre: ((0 <= ss) & (ss < 4)) & ((0 <= se) & (se < 4)) & ((0 <= es) & (es < 4)) & ((0 <= ee) & (ee < 4)) & ((0 <= same) & (same < 2))
    post: _
    """
    raw = (ss, se, es, ee, same)
    lab = [None, 0, 1, 2]           # absent, eps, a, b
    edges = []
    for (q, r), v in (((0, 0), ss), ((0, 1), se), ((1, 0), es), ((1, 1), ee)):
        c = enc.pick(v, 4)
        if c > 0:
            edges.append((q, lab[c], r))
    sm = enc.pick(same, 2)
    st = [0]
    fi = [0] if sm else [1]
    return _run("c06_two_state", raw, 2, 2, edges, st, fi, None, None, [])


def _sh_to_regex(tier):
    if tier == "quick":
        return product_pins(n=[2], k=[1, 2], m=[1, 2], starts=[1, 3], finals=[1, 2, 3], wlen=[1]) + \
            product_pins(n=[2], k=[1], m=[3], starts=[1, 3], finals=[1, 2, 3], wlen=[1]) + \
            product_pins(n=[2], k=[2], m=[3], starts=[1, 3], finals=[1, 2, 3], wlen=[1], t0=[0], t1=[0, 1, 2]) + \
            product_pins(n=[2], k=[2], m=[3], starts=[1, 3], finals=[1, 2, 3], wlen=[1], t0=[1]) + \
            product_pins(n=[3], k=[1], m=[2], starts=[1, 3], finals=[4], perm=[0, 4], wlen=[2], t0=[0, 1]) + \
            product_pins(n=[3], k=[1], m=[3], starts=[1, 3], finals=[4], perm=[0, 4], wlen=[2], t0=[0], t1=[0, 1]) + \
            product_pins(n=[3], k=[1], m=[3], starts=[1, 3], finals=[4], perm=[0, 4], wlen=[2], t0=[1])
    return product_pins(n=[2], k=[1], m=[0, 1, 2, 3, 4], starts=[0, 1, 2, 3], finals=[0, 1, 2, 3], wlen=[2]) + \
        product_pins(n=[2], k=[2], m=[1, 2, 3], starts=[0, 1, 2, 3], finals=[0, 1, 2, 3], wlen=[2]) + \
        product_pins(n=[3], k=[1], m=[2, 3], starts=[1, 3], finals=[4, 6], perm=[0, 4], wlen=[2], t0=[0, 1, 2])


def _sh_two_state(tier):
    return product_pins(ss=[0, 1, 2, 3], se=[0, 1, 2, 3], same=[0, 1])


FUNCS = ["EpsilonNFA.to_regex", "EpsilonNFA._remove_all_basic_states", "EpsilonNFA._remove_state",
         "EpsilonNFA._create_or_transitions", "EpsilonNFA._get_regex_simple", "EpsilonNFA._get_bi_transitions",
         "get_temp", "get_regex_sub", "Regex.__init__", "Regex.to_epsilon_nfa", "Regex.accepts"]
RULE = "automaton has an edge, a start and a final state"

CONDS = [
    Cond("C06", c06_to_regex, _sh_to_regex,
         {"quick": "eps-NFA 2 states over {a}/{a,b} with 1-3 edges (eps, loops, parallel edges), starts {0}/{0,1}, "
                   "any non-empty final mask + 3 states over {a} with 2-3 edges, final {2}, 2 elimination orders; "
                   "regex compared exactly through its eps-NFA and on one symbolic word through accepts",
          "thorough": "2 states: <=4 edges over {a}, <=3 over {a,b}, all masks; 3 states over {a}: 2-3 edges, starts {0}/{0,1}, finals {2}/{1,2}, 2 elimination orders"},
         FUNCS, RULE),
    Cond("C06", c06_two_state, _sh_two_state,
         {"quick": "all two-state automata with each of the 4 edges in {absent, eps, a, b}, start 0, final 1 or 0 "
                   "(closed form _get_regex_simple)", "thorough": "same"},
         FUNCS, RULE),
]
