"""C11 — intersection with a regular language (CFG and PDA) is exact."""
from typing import Tuple

from vlib import chx, enc
from vlib.chx import pinned
from vlib.oracles import nfa as O
from vlib.oracles import cfg as OC
from vlib.oracles import pda as OP
from vlib.oracles import rx as RX
from vlib.registry import Cond, product_pins
from vlib.conds.c08 import grammar_tags, P2
from vlib.conds.c02 import decode_dfa
from vlib.conds.c13 import pda_tags, T10

from pyformlang.finite_automaton import (EpsilonNFA, NondeterministicFiniteAutomaton,
                                         DeterministicFiniteAutomaton)
from pyformlang.regular_expression import Regex

cfg_canonical = enc.cfg_canonical
pda_canonical = enc.pda_canonical
sparse_canonical = enc.sparse_canonical
chx.warm_networkx()
L = 3
THOROUGH = chx.thorough()
D4 = Tuple[int, int, int, int]
T6 = Tuple[int, int, int, int, int, int]
RSYMS = [["a", "b"], ["a", "c"], ["b", "a"]]
RX_TOKS = ["a", "b", "|", "*", "(", ")", "$", "c"]


def regular_operand(rkind, d, rs, rf, rsym):
    """Decode the regular operand. Returns (spec, builder) with spec = plain description for the oracle."""
    rk = enc.pick(rkind, 4)
    syms = RSYMS[enc.pick(rsym, 3)]
    if rk == 0:          # partial DFA, 2 states over 2 symbols
        edges, starts, fin = decode_dfa(d, rs, rf, 2, 2)
        spec = ("fa", 2, edges, starts, fin, syms)
        return spec, lambda: enc.build_enfa(DeterministicFiniteAutomaton, 2, edges, starts, fin, syms=syms)
    if rk in (1, 2):     # eps-NFA / NFA: d = two (q, sym, t) pairs packed as q*6+sym*2+t, 12 = absent
        edges = []
        for x in (d[0], d[1]):
            v = enc.pick(x, 13)
            if v < 12:
                e = (v // 6, (v // 2) % 3, v % 2)
                if e not in edges and not (rk == 2 and e[1] == 0):
                    edges.append(e)
        starts = enc.mask_members(rs, 2)
        fin = enc.mask_members(rf, 2)
        spec = ("fa", 2, edges, starts, fin, syms)
        cls = EpsilonNFA if rk == 1 else NondeterministicFiniteAutomaton
        return spec, lambda: enc.build_enfa(cls, 2, edges, starts, fin, syms=syms)
    # regex of up to 3 tokens
    toks = [RX_TOKS[enc.pick(d[i], 8)] for i in range(3)]
    n = enc.pick(rs, 4)
    text = " ".join(toks[:n])
    return ("rx", text), lambda: Regex(text)


def regular_ref(spec):
    """Reference language of the regular operand; None when the operand is not a valid regex."""
    if spec[0] == "fa":
        _, n, edges, starts, fin, syms = spec
        return enc.ref_enfa(n, edges, starts, fin, syms=syms)
    cls = RX.classify(spec[1])
    if cls[0] != "wf":
        return None
    return RX.to_ref(cls[1])


def reg_tags(spec, ref):
    tags = ["regular_" + spec[0]]
    if ref is not None:
        if O.is_empty(ref):
            tags.append("regular_empty")
        if not ref.starts:
            tags.append("regular_no_start")
        if not O.is_deterministic_def(ref):
            tags.append("regular_nondeterministic")
        if O.accepts(ref, []):
            tags.append("regular_accepts_epsilon")
    return tags


# ----------------------------------------------------------------------------------------

def _cfg_oracle(args, obs):
    prods, spec = args
    g = enc.ref_cfg(prods, 2)
    ref = regular_ref(spec)
    tags = grammar_tags(g) + reg_tags(spec, ref)
    want = {w for w in OC.words_upto(g, L) if O.accepts(ref, list(w))}
    fails = []
    for op in ("intersection", "and"):
        if op not in obs:
            continue
        res = obs[op]
        if res[0] == "exc":
            fails.append(chx.exc_failure(op, res, tags=tags))
            continue
        got = OC.words_upto(OC.extract(res[1]), L)
        if got != want:
            fails.append({"kind": "language", "op": op, "tags": tags,
                          "detail": "differs on %r" % (sorted(got ^ want)[:3],)})
    return len(prods) >= 2 and bool(want), fails, {"grammar": g.describe(), "regular": spec, "tags": tags}


def c11_cfg(t: P2, p: int, rkind: int, d: D4, rs: int, rf: int, rsym: int) -> bool:
    """
    pre: pinned(p=p, h0=t[0], l0=t[1], s0=t[2], rkind=rkind, rsym=rsym, rs=rs, rf=rf, d0=d[0], d1=d[1])
    pre: ((0 <= p) & (p <= 2)) & ((0 <= rkind) & (rkind < 4)) & ((0 <= rsym) & (rsym < 3)) & ((0 <= rf) & (rf < 4))
    pre: cfg_canonical(t, p, 2, 2, 2)
    pre: (rkind != 0) or (enc.in_range(d, 3) and 0 <= rs <= 2)
    pre: (rkind not in (1, 2)) or (0 <= d[0] <= 12 and 0 <= d[1] <= 12 and d[0] <= d[1] and d[2] == 0 and d[3] == 0 and 0 <= rs < 4)
    pre: (rkind != 3) or (enc.in_range(d, 8) and d[3] == 0 and 1 <= rs <= 3 and rf == 0)
    post: _
    """
    raw = (t, p, rkind, d, rs, rf, rsym)
    prods = enc.decode_cfg(t, p, 2, 2, 2)
    spec, mk = regular_operand(rkind, d, rs, rf, rsym)
    if spec[0] == "rx":
        with chx.NT():
            wf = RX.classify(spec[1])[0] == "wf"
        if not wf:
            return chx.assumed_away("c11_cfg")
    chx.enter("c11_cfg", raw)
    g = enc.build_cfg(prods, 2)
    r = mk()
    obs = {"intersection": chx.guarded(g.intersection, r)}
    if chx.thorough():
        g2 = enc.build_cfg(prods, 2)
        r2 = mk()
        obs["and"] = chx.guarded(lambda: g2 & r2)
    return chx.judge("C11", "c11_cfg", raw, (prods, spec), obs, _cfg_oracle, realize_obs=False)


def _pda_oracle(args, obs):
    pspec, spec = args
    r = enc.ref_pda(pspec)
    ref = regular_ref(spec)
    tags = pda_tags(r) + reg_tags(spec, ref)
    want = {w for w in OP.lang_final_state(r, L) if O.accepts(ref, list(w))}
    fails = []
    res = obs["intersection"]
    if res[0] == "exc":
        fails.append(chx.exc_failure("pda.intersection", res, tags=tags))
    else:
        x = OP.extract(res[1])
        got = OP.lang_final_state(x, L)
        if got != want:
            fails.append({"kind": "language", "op": "pda.intersection", "tags": tags, "result": x.describe(),
                          "detail": "final-state language differs on %r" % (sorted(got ^ want)[:3],)})
    return len(r.transitions) >= 2 and bool(want), fails, {"pda": r.describe(), "regular": spec, "tags": tags}


def c11_pda(t: T10, m: int, finals: int, rkind: int, d: D4, rs: int, rf: int, rsym: int) -> bool:
    """
    pre: pinned(m=m, finals=finals, i0=t[1], c0=t[4], f1=t[5], rkind=rkind, rsym=rsym, rs=rs, rf=rf, d0=d[0], d1=d[1])
    pre: ((1 <= m) & (m <= 2)) & ((0 <= finals) & (finals < 4)) & ((0 <= rkind) & (rkind < 4)) & ((0 <= rsym) & (rsym < 3)) & ((0 <= rf) & (rf < 4))
    pre: pda_canonical(t, m, 2, 2)
    pre: (t[0] == 0) & (t[2] == 0)
    pre: (t[6] <= 1) & (t[9] <= 3)
    pre: (rkind != 0) or (enc.in_range(d, 3) and 0 <= rs <= 2)
    pre: (rkind not in (1, 2)) or (0 <= d[0] <= 12 and 0 <= d[1] <= 12 and d[0] <= d[1] and d[2] == 0 and d[3] == 0 and 0 <= rs < 4)
    pre: (rkind != 3) or (enc.in_range(d, 8) and d[3] == 0 and 1 <= rs <= 3 and rf == 0)
    post: _
    """
    raw = (t, m, finals, rkind, d, rs, rf, rsym)
    trans = enc.decode_pda(t, m, 2, 2)
    fin = enc.mask_members(finals, 2)
    pspec = enc.pda_spec(trans, fin)
    spec, mk = regular_operand(rkind, d, rs, rf, rsym)
    if spec[0] == "rx":
        with chx.NT():
            wf = RX.classify(spec[1])[0] == "wf"
        if not wf:
            return chx.assumed_away("c11_pda")
    chx.enter("c11_pda", raw)
    pda = enc.build_pda(pspec)
    r = mk()
    obs = {"intersection": chx.guarded(pda.intersection, r)}
    return chx.judge("C11", "c11_pda", raw, (pspec, spec), obs, _pda_oracle, realize_obs=False)


# PDA with 2 states x DFA with 3 states: product states outnumber both operands
PDA_SHAPES = [
    ([(0, 1, 0, 1, 1), (1, 2, 0, 0, 1)], [0]),                                   # (ab)* by final state
    ([(0, 1, 0, 0, 3), (0, 2, 1, 1, 0), (1, 2, 0, 1, 1)], [1]),                 # a X-push, popped on b, then b*
    ([(0, 1, 0, 1, 1), (1, 1, 0, 0, 1), (0, 2, 0, 0, 1), (1, 2, 0, 1, 1)], [1]),  # odd number of a, any b
]
D6 = Tuple[int, int, int, int, int, int]


def c11_pda_dfa3(shape: int, d: D6, rf: int) -> bool:
    """
    pre: pinned(shape=shape, rf=rf, d0=d[0], d1=d[1])
    pre: enc.in_range(d, 4) & ((0 <= shape) & (shape < 3)) & ((1 <= rf) & (rf < 8))
    post: _
    """
    raw = (shape, d, rf)
    trans, fin = PDA_SHAPES[enc.pick(shape, 3)]
    pspec = enc.pda_spec(trans, fin)
    edges, starts, rfin = decode_dfa(d, 1, rf, 3, 2)
    spec = ("fa", 3, edges, starts, rfin, RSYMS[0])
    chx.enter("c11_pda_dfa3", raw)
    pda = enc.build_pda(pspec)
    r = enc.build_enfa(DeterministicFiniteAutomaton, 3, edges, starts, rfin, syms=RSYMS[0])
    obs = {"intersection": chx.guarded(pda.intersection, r)}
    return chx.judge("C11", "c11_pda_dfa3", raw, (pspec, spec), obs, _pda_oracle, realize_obs=False)


def _types_oracle(args, obs):
    fails = []
    for op, res in obs:
        if res[0] != "exc" or res[1] != "NotImplementedError":
            fails.append({"kind": "verdict", "op": op,
                          "detail": "expected NotImplementedError, got %r" % (res[:3],)})
    return True, fails, {"operands": [op for op, _ in obs]}


def c11_types(which: int) -> bool:
    """
    pre: 0 <= which < 2
    post: _
    """
    raw = (which,)
    w = enc.pick(which, 2)
    chx.enter("c11_types", raw)
    g = enc.build_cfg([(0, [2])], 2)
    target = g if w == 0 else enc.build_pda(enc.pda_spec([(0, 1, 0, 1, 0)], [1]))
    name = "cfg" if w == 0 else "pda"
    obs = []
    for label, other in (("int", 3), ("str", "a*"), ("cfg", enc.build_cfg([(0, [2])], 2)), ("none", None),
                         ("list", ["a"])):
        obs.append(("%s.intersection(%s)" % (name, label), chx.guarded(target.intersection, other)))
    return chx.judge("C11", "c11_types", raw, (w,), obs, _types_oracle, realize_obs=False)


def _sh_cfg(tier):
    if tier == "quick":
        # S -> a + any second production (41 grammars) x DFA whose state-0 row is pinned (9 DFAs per shard)
        return [dict(p=2, h0=0, l0=1, s0=2, rkind=0, rsym=rs_, rs=1, rf=rf_, d0=d0_, d1=d1_)
                for rs_ in (0, 1) for rf_ in (1, 3) for (d0_, d1_) in ((1, 0), (2, 2))] + \
            [dict(p=2, h0=0, l0=0, rkind=0, rsym=1, rs=1, rf=1, d0=0, d1=0),
             dict(p=2, h0=0, l0=0, rkind=0, rsym=2, rs=1, rf=3, d0=1, d1=0)] + \
            product_pins(p=[2], h0=[0], l0=[1], s0=[2], rkind=[1, 2], rsym=[0], rs=[3], rf=[2], d0=[1, 8]) + \
            product_pins(p=[1], h0=[0], l0=[1], rkind=[3], rsym=[0], rs=[1, 3], rf=[0])
    rows = ((1, 0), (2, 2), (0, 1), (2, 0))
    return [dict(p=2, h0=0, l0=1, s0=s0_, rkind=0, rsym=rs_, rs=1, rf=rf_, d0=d0_, d1=d1_)
            for s0_ in (2, 3) for rs_ in (0, 1) for rf_ in (1, 3) for (d0_, d1_) in rows] + \
        [dict(p=2, h0=0, l0=0, rkind=0, rsym=rs_, rs=1, rf=rf_, d0=d0_, d1=d1_)
         for rs_ in (0, 1, 2) for rf_ in (1, 3) for (d0_, d1_) in rows] + \
        product_pins(p=[2], h0=[0], l0=[1], s0=[2], rkind=[1, 2], rsym=[0, 1], rs=[1, 3], rf=[1, 2], d0=[1, 3, 8]) + \
        product_pins(p=[1], h0=[0], l0=[1, 2], rkind=[3], rsym=[0], rs=[1, 2, 3], rf=[0])


def _sh_pda(tier):
    if tier == "quick":
        return product_pins(m=[2], finals=[2, 3], i0=[1], c0=[3], f1=[0, 1], rkind=[0], rsym=[0], rs=[1],
                            rf=[1, 2], d0=[1], d1=[0]) + \
            product_pins(m=[2], finals=[2], i0=[1], c0=[3], f1=[0, 1], rkind=[1], rsym=[0], rs=[3], rf=[2],
                         d0=[1])
    return [dict(m=2, finals=f_, i0=1, c0=c_, f1=f1_, rkind=0, rsym=0, rs=1, rf=rf_, d0=d0_, d1=d1_)
            for f_ in (2, 3) for c_ in (2, 3) for f1_ in (0, 1) for rf_ in (1, 2) for (d0_, d1_) in ((1, 0), (2, 2))] + \
        product_pins(m=[2], finals=[2, 3], i0=[1], c0=[3], f1=[0, 1], rkind=[1], rsym=[0], rs=[3], rf=[2], d0=[1, 8])


def _sh_types(tier):
    return [{}]


FUNCS = ["CFG.intersection", "CFG.__and__", "CFG._intersection_starting_rules", "CFG._intersection_when_terminal",
         "CFG._intersection_when_two_non_terminals", "CFG._get_all_bodies", "pda.CFGVariableConverter",
         "PDA.intersection", "_PDAStateConverter", "to_deterministic", "Regex.to_epsilon_nfa"]
RULE = ">= 2 productions/transitions and a non-empty intersection up to length 3"
ASSUME = ["languages compared on all words of length <= 3 (O-CFG / O-PDA fixpoints on the extracted result, O-NFA "
          "acceptance of the regular side)", "regex operands that are not well-formed under the documented grammar "
          "are assumed away (C05's business)"]

CONDS = [
    Cond("C11", c11_cfg, _sh_cfg,
         {"quick": "grammars S->a or S->eps + any second production (over {S,A},{a,b}) x partial DFA with 2 states over "
                   "{a,b} / {a,c} / {b,a} (start 0, final masks {0} or {0,1}, 4 of the 9 state-0 rows); x eps-NFA / NFA "
                   "whose first edge is one of 3; single production x regex of 1 or 3 tokens from {a,b,|,*,(,),$,c}",
          "thorough": "S->a/S->b/S->eps + any second production x 4 state-0 rows x 3 alphabets; eps-NFA/NFA operands "
                      "with 3 first edges; one production S->x / S->xy x regex of 1-3 tokens; also the & operator"},
         FUNCS, RULE, assumptions=ASSUME),
    Cond("C11", c11_pda, _sh_pda,
         {"quick": "PDA (2 states, stack {Z,X}, 2 transitions: the first reads a from (0,Z) and pushes [X,Z], the second "
                   "reads eps or a and pushes one of 4 words) x partial DFA over {a,b} with state-0 row (a->0, b->none) "
                   "/ eps-NFA: final-state language of the result",
          "thorough": "both push words [X] and [X,Z] for the first transition, two state-0 rows of the DFA"},
         FUNCS, RULE, assumptions=ASSUME),
    Cond("C11", c11_types, _sh_types,
         {"quick": "cfg.intersection / pda.intersection with an int, a str, a CFG, None, a list raise "
                   "NotImplementedError", "thorough": "same"},
         FUNCS, "always"),
    Cond("C11", c11_pda_dfa3, lambda tier: product_pins(shape=[0, 1, 2], rf=[4, 6], d0=[1, 2, 3], d1=[3]) if tier == "quick"
         else product_pins(shape=[0, 1, 2], rf=[1, 4, 6], d0=[1, 2, 3], d1=[1, 2, 3]),
         {"quick": "3 two-state PDAs ((ab)* / push-pop / parity) x partial DFAs with 3 states over {a,b} (symbolic table, "
                   "first row pinned to 3 combinations), finals {2} / {1,2}: more product states than either operand has",
          "thorough": "first row in 9 combinations, finals {0} / {2} / {1,2}"},
         FUNCS, RULE, assumptions=ASSUME),
]
