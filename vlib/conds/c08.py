"""C08 — CFG membership answers are exactly derivability from the start symbol."""
import itertools
from typing import Tuple

from vlib import chx, enc
from vlib.chx import pinned
from vlib.oracles import cfg as OC
from vlib.registry import Cond, product_pins, cfg_pins

cfg_canonical = enc.cfg_canonical

P2 = Tuple[int, int, int, int, int, int, int, int]                  # 2 productions, bodies <= 2
P3 = Tuple[int, int, int, int, int, int, int, int, int, int, int, int]   # 3 productions, bodies <= 2
P2B3 = Tuple[int, int, int, int, int, int, int, int, int, int]     # 2 productions, bodies <= 3

ALPH = ["a", "b", "z"]          # z is unknown to every grammar


def all_words(maxlen, alphabet=ALPH):
    out = []
    for n in range(maxlen + 1):
        out += [list(w) for w in itertools.product(alphabet, repeat=n)]
    return out


def grammar_tags(g):
    tags = []
    if OC.has_epsilon_production(g):
        tags.append("has_epsilon_production")
    if OC.has_unit_production(g):
        tags.append("has_unit_production")
    if OC.is_empty(g):
        tags.append("empty_language")
    if g.start not in {h for h, _ in g.prods}:
        tags.append("start_without_production")
    if any(("V", h) in b for h, b in g.prods):
        tags.append("self_recursive")
    return tags


def _oracle(args, obs):
    prods, v, words = args
    g = enc.ref_cfg(prods, v)
    return _judge_membership(g, words, obs, len(prods))


def _judge_membership(g, words, obs, nprods):
    prods = [None] * nprods
    tags = grammar_tags(g)
    L = max([len(w) for w in words] + [0])
    lang = OC.words_upto(g, L)
    fails = []
    res = obs["generate_epsilon"]
    if res[0] == "exc":
        fails.append(chx.exc_failure("generate_epsilon", res, tags=tags))
    elif bool(res[1]) != (() in lang):
        fails.append({"kind": "verdict", "op": "generate_epsilon", "tags": tags,
                      "detail": "generate_epsilon() = %r" % (res[1],)})
    for op in ("contains", "in"):
        res = obs[op]
        if res[0] == "exc":
            fails.append(chx.exc_failure(op, res, tags=tags))
            continue
        for w, got in zip(words, res[1]):
            if bool(got) != (tuple(w) in lang):
                fails.append({"kind": "verdict", "op": op, "tags": tags,
                              "detail": "%s(%r) = %r, derivable: %r" % (op, w, got, tuple(w) in lang)})
                break
    return len(prods) >= 2 and bool(lang), fails, dict(g.describe(), tags=tags)


def _run(cond, raw, prods, v, words, order=None):
    chx.enter(cond, raw)
    g = enc.build_cfg(prods, v, order=order)
    obs = {"contains": chx.guarded(lambda: [bool(g.contains(w)) for w in words]),
           "in": chx.guarded(lambda: [bool(w in g) for w in words[:4]]),
           "generate_epsilon": chx.guarded(g.generate_epsilon)}
    return chx.judge("C08", cond, raw, (prods, v, words), obs, _oracle)


WORDS2 = all_words(2) + [["a", "a", "b"], ["a", "b", "a"], ["b", "a", "b"], ["a", "a", "a"], ["b", "b", "a"]]
WORDS3 = all_words(3, ["a", "b"]) + [["z"], ["a", "z"]]


def c08_p2(t: P2, p: int) -> bool:
    """
    pre: pinned(p=p, h0=t[0], l0=t[1])
    pre: 0 <= p <= 2
    pre: cfg_canonical(t, p, 2, 2, 2)
    post: _
    """
    prods = enc.decode_cfg(t, p, 2, 2, 2)
    return _run("c08_p2", (t, p), prods, 2, WORDS2)


def c08_p3(t: P3, p: int) -> bool:
    """
    pre: pinned(h0=t[0], l0=t[1], s0=t[2], h1=t[4])
    pre: p == 3
    pre: cfg_canonical(t, p, 2, 2, 2)
    post: _
    """
    prods = enc.decode_cfg(t, p, 2, 2, 2)
    return _run("c08_p3", (t, p), prods, 2, WORDS3)


def c08_b3(t: P2B3, p: int) -> bool:
    """
    pre: pinned(p=p, h0=t[0], s0=t[2], s1=t[3])
    pre: 1 <= p <= 2
    pre: cfg_canonical(t, p, 2, 2, 3)
    pre: t[1] == 3
    post: _
    """
    prods = enc.decode_cfg(t, p, 2, 2, 3)
    return _run("c08_b3", (t, p), prods, 2, WORDS3)


def c08_word(t: P2, p: int, w: Tuple[int, int, int], wlen: int) -> bool:
    """
    pre: pinned(p=p, h0=t[0], l0=t[1], s0=t[2], wlen=wlen)
    pre: ((1 <= p) & (p <= 2)) & ((0 <= wlen) & (wlen <= 3))
    pre: cfg_canonical(t, p, 2, 2, 2)
    pre: enc.word_ranges(w, wlen, 3)
    post: _
    """
    prods = enc.decode_cfg(t, p, 2, 2, 2)
    word = enc.decode_word(w, wlen, ALPH)
    return _run("c08_word", (t, p, w, wlen), prods, 2, [word])


def c08_chain(sd: bool, aa: bool, bmask: int, cmask: int) -> bool:
    """
    pre: pinned(sd=sd, aa=aa, bmask=bmask)
    pre: ((0 <= bmask) & (bmask < 16)) & ((0 <= cmask) & (cmask < 8))
    post: _
    """
    from vlib.conds import chain
    raw = (sd, aa, bmask, cmask)
    prods = chain.decode_chain(sd, aa, bmask, cmask)
    words = [[], ["a"], ["d"], ["a", "d"], ["a", "a"], ["a", "a", "d"], ["a", "a", "a", "d"], ["d", "a"], ["z"]]
    chx.enter("c08_chain", raw)
    g = chain.build(prods)
    obs = {"contains": chx.guarded(lambda: [bool(g.contains(w)) for w in words]),
           "in": chx.guarded(lambda: [bool(w in g) for w in words[:4]]),
           "generate_epsilon": chx.guarded(lambda: chain.build(prods).generate_epsilon())}
    return chx.judge("C08", "c08_chain", raw, (prods, 4, words), obs, _chain_oracle)


def _chain_oracle(args, obs):
    from vlib.conds import chain
    prods, v, words = args
    g = chain.ref(prods)
    return _judge_membership(g, words, obs, len(prods))


def c08_declared(t: P2, p: int, extra: int) -> bool:
    """
    pre: pinned(p=p, extra=extra)
    pre: ((0 <= p) & (p <= 1)) & ((0 <= extra) & (extra < 4))
    pre: cfg_canonical(t, p, 2, 2, 2)
    post: _
    """
    raw = (t, p, extra)
    prods = enc.decode_cfg(t, p, 2, 2, 2)
    ex = enc.pick(extra, 4)
    from pyformlang.cfg import CFG, Variable, Terminal, Production
    chx.enter("c08_declared", raw)
    ps = set()
    for h, body in prods:
        ps.add(Production(Variable(enc.VARS[h]), [Variable(enc.VARS[c]) if c < 2 else Terminal(enc.TERMS[c - 2])
                                                   for c in body]))
    # symbols declared in the constructor but (possibly) used by no production
    variables = {Variable("S"), Variable("A")} if ex & 1 else {Variable("S")}
    terminals = {Terminal("a"), Terminal("b")} if ex & 2 else set()
    g = CFG(variables, terminals, Variable("S"), ps)
    obs = {"contains": chx.guarded(lambda: [bool(g.contains(w)) for w in WORDS2]),
           "in": chx.guarded(lambda: [bool(w in g) for w in WORDS2[:4]]),
           "generate_epsilon": chx.guarded(g.generate_epsilon)}
    return chx.judge("C08", "c08_declared", raw, (prods, 2, WORDS2), obs, _oracle)


S4 = Tuple[int, int, int, int, int, int, int, int]
WORDS4 = all_words(4, ["a", "b"])


def c08_b4s(b: S4) -> bool:
    """
    pre: pinned(x0=b[0], x1=b[1], y0=b[4])
    pre: enc.in_range(b, 3)
    pre: (b[0], b[1], b[2], b[3]) < (b[4], b[5], b[6], b[7])
    post: _
    """
    # one variable S (code 0), terminals a, b (codes 1, 2): S -> x0 x1 x2 x3 | y0 y1 y2 y3 | a
    # (bodies longer than 2 are cut into a chain of fresh variables; two bodies may share a tail)
    body0 = [enc.pick(b[i], 3) for i in range(4)]
    body1 = [enc.pick(b[4 + i], 3) for i in range(4)]
    prods = [(0, body0), (0, body1), (0, [1])]
    return _run("c08_b4s", (b,), prods, 1, WORDS4)


PRE_QUERIES = ["is_empty", "get_generating_symbols", "get_nullable_symbols", "get_reachable_symbols",
               "remove_useless_symbols", "is_finite"]


def c08_prequery(t: P3, p: int, q: int) -> bool:
    """
    pre: pinned(h0=t[0], l0=t[1], s0=t[2], h1=t[4], q=q)
    pre: (p == 3) & ((0 <= q) & (q < 6))
    pre: cfg_canonical(t, p, 2, 2, 2)
    post: _
    """
    raw = (t, p, q)
    prods = enc.decode_cfg(t, p, 2, 2, 2)
    qq = enc.pick(q, 6)
    chx.enter("c08_prequery", raw)
    g = enc.build_cfg(prods, 2)
    # the grammar answers another question first; membership must not depend on that
    chx.guarded(getattr(g, PRE_QUERIES[qq]))
    words = WORDS2
    obs = {"contains": chx.guarded(lambda: [bool(g.contains(w)) for w in words]),
           "in": chx.guarded(lambda: [bool(w in g) for w in words[:4]]),
           "generate_epsilon": chx.guarded(g.generate_epsilon)}
    return chx.judge("C08", "c08_prequery", raw, (prods, 2, words), obs, _oracle)


def _sh_p2(tier):
    return [{"p": 0}, {"p": 1}] + product_pins(p=[2], h0=[0, 1], l0=[0, 1, 2])


def _sh_p3(tier):
    return cfg_pins(product_pins(h0=[0, 1], l0=[0, 1, 2], s0=[0, 1, 2, 3], h1=[0, 1]))


def _sh_b3(tier):
    return product_pins(p=[1], h0=[0, 1], s0=[0, 1, 2, 3]) + product_pins(p=[2], h0=[0], s0=[1, 2], s1=[0, 1, 2, 3])


def _sh_word(tier):
    if tier == "quick":
        return product_pins(p=[2], h0=[0], l0=[1], s0=[0, 1, 2, 3], wlen=[2])
    return product_pins(p=[2], h0=[0], l0=[1], s0=[0, 1, 2, 3], wlen=[2, 3]) + \
        product_pins(p=[2], h0=[0], l0=[2], s0=[0, 1, 2, 3], wlen=[2])


FUNCS = ["CFG.contains", "CFG.__contains__", "CFG.generate_epsilon", "CFG.to_normal_form", "CYKTable.*",
         "CFG.remove_useless_symbols", "CFG.remove_epsilon", "CFG.eliminate_unit_productions",
         "Production.__init__", "Variable", "Terminal"]
RULE = "grammar with >= 2 productions and a non-empty language (up to the bound)"


# ---- terminals whose values differ but print alike (Terminal(1) / Terminal("1")): the helper variables that
#      to_normal_form names after the *text* of a terminal must still be one per terminal
SAMETEXT = [(1, "1"), (None, "None")]


def _st_oracle(args, obs):
    prods, terms, words = args
    return _judge_membership(enc.ref_cfg(prods, 2, terms=list(terms)), words, obs, len(prods))


def c08_sametext(t: P2, p: int, which: int) -> bool:
    """
    pre: pinned(p=p, h0=t[0], l0=t[1], which=which)
    pre: (p == 2) & ((0 <= which) & (which < 2))
    pre: cfg_canonical(t, p, 2, 2, 2)
    post: _
    """
    raw = (t, p, which)
    prods = enc.decode_cfg(t, p, 2, 2, 2)
    terms = SAMETEXT[enc.pick(which, 2)]
    words = all_words(3, list(terms))
    chx.enter("c08_sametext", raw)
    g = enc.build_cfg(prods, 2, terms=list(terms))
    obs = {"contains": chx.guarded(lambda: [bool(g.contains(w)) for w in words]),
           "in": chx.guarded(lambda: [bool(w in g) for w in words[:4]]),
           "generate_epsilon": chx.guarded(g.generate_epsilon)}
    return chx.judge("C08", "c08_sametext", raw, (prods, terms, words), obs, _st_oracle)

CONDS = [
    Cond("C08", c08_p2, _sh_p2,
         {"quick": "all grammars with <=2 productions over variables {S,A}, terminals {a,b}, bodies of length <=2 "
                   "(904 grammars; eps/unit/recursive/useless/start without production included); per grammar every "
                   "word of length <=2 over {a,b,z} + 5 words of length 3 through contains(), 4 through `in`, "
                   "generate_epsilon()",
          "thorough": "same"},
         FUNCS, RULE),
    Cond("C08", c08_p3, _sh_p3,
         {"thorough": "all grammars with exactly 3 distinct productions (same alphabet): every word of length <=3 "
                      "over {a,b} + 2 words with the unknown symbol z"},
         FUNCS, RULE, tiers=("thorough",)),
    Cond("C08", c08_b3, _sh_b3,
         {"thorough": "1-2 productions, the first with a body of length 3 (binarisation path), second any body <=3"},
         FUNCS, RULE, tiers=("thorough",)),
    Cond("C08", c08_chain, lambda tier: __import__("vlib.conds.chain", fromlist=["x"]).shards(tier),
         {"quick": "the 512 'nullable chain' grammars S->A[d], A->B[a], B->subset{eps,C,a,CC}, C->subset{eps,a,B} "
                   "(4 variables): contains on 9 words, generate_epsilon on a fresh object", "thorough": "same"},
         FUNCS, RULE),
    Cond("C08", c08_declared, lambda tier: product_pins(p=[0, 1], extra=[0, 1, 2, 3]),
         {"quick": "grammars with 0-1 productions whose variables / terminals are (also) declared through the "
                   "constructor arguments, incl. declared terminals that no production uses", "thorough": "same"},
         FUNCS, RULE),
    Cond("C08", c08_word, _sh_word,
         {"quick": "2 productions (first: S -> one symbol) x one symbolic word of length 2 over {a,b,z} on a fresh "
                   "grammar object (no cached normal form)",
          "thorough": "first body of length 1-2, words of length 2-3"},
         FUNCS, RULE),
    Cond("C08", c08_b4s, lambda tier: (product_pins(x0=[1], x1=[1, 2], y0=[1, 2]) if tier == "quick" else
                                       product_pins(x0=[0, 1, 2], x1=[0, 1, 2], y0=[0, 1, 2])),
         {"quick": "S -> x0 x1 x2 x3 | y0 y1 y2 y3 | a with symbols from {S,a,b}, first symbol a, second a/b (bodies "
                   "of length 4: the binarisation chain with shared tails): every word of length <=4 over {a,b}",
          "thorough": "all ordered pairs of bodies of length 4 over {S,a,b}"},
         FUNCS + ["CFG._decompose_productions", "CFG._get_next_free_variable"], RULE),
    Cond("C08", c08_prequery, lambda tier: (product_pins(h0=[0], l0=[1], s0=[2], h1=[0, 1], q=[0, 1, 2, 3, 4, 5])
                                            if tier == "quick" else
                                            cfg_pins(product_pins(h0=[0], l0=[0, 1], s0=[0, 1, 2], h1=[0, 1], q=[0, 1, 2, 3, 4, 5]))),
         {"quick": "3 productions, the first S -> a: one of is_empty / get_generating_symbols / get_nullable_symbols / "
                   "get_reachable_symbols / remove_useless_symbols / is_finite is called first (symbolic choice), then "
                   "contains / in / generate_epsilon on the same object",
          "thorough": "first production S -> eps | S -> x (x in S, A, a)"},
         FUNCS + ["CFG.is_empty", "CFG.get_generating_symbols", "CFG.get_nullable_symbols",
                  "CFG._get_generating_or_nullable"], RULE),
    Cond("C08", c08_sametext, lambda tier: product_pins(p=[2], h0=[0], l0=[2], which=[0, 1]) if tier == "quick"
         else product_pins(p=[2], h0=[0, 1], l0=[0, 1, 2], which=[0, 1]),
         {"quick": "the grammars of c08_p2 with 2 productions whose first production is S -> (2 symbols), over the "
                   "terminals 1 / '1' or None / 'None' (values differ, texts agree): every word of length <=3 over "
                   "the two terminals",
          "thorough": "all grammars with 2 productions over these terminal pairs"},
         FUNCS + ["CFG._get_productions_with_only_single_terminals"], RULE),
]
