"""C05 — regex text means what the documented grammar says, in every representation."""
from typing import Tuple

from vlib import chx, enc
from vlib.chx import pinned
from vlib.oracles import nfa as O
from vlib.oracles import cfg as OC
from vlib.oracles import rx as RX
from vlib.registry import Cond, product_pins

from pyformlang.regular_expression import Regex
from pyformlang.finite_automaton import Epsilon as FAEpsilon
from pyformlang.cfg import Variable as CFGVariable
from pyformlang.cfg.epsilon import Epsilon as CFGEpsilon

WORDS = [[], ["a"], ["b"], ["a", "a"], ["a", "b"], ["b", "a"], ["b", "b"], ["ab"], ["a", "b", "a"], ["|"]]


def plain_fa(fa):
    """Traced extraction through the public observation points into plain data."""
    return {"states": [s.value for s in fa.states],
            "starts": [s.value for s in fa.start_states],
            "finals": [s.value for s in fa.final_states],
            "edges": [(q.value, None if isinstance(a, FAEpsilon) else a.value, t.value) for q, a, t in fa]}


def plain_cfg(g):
    prods = []
    for p in g.productions:
        body = []
        for s in p.body:
            if isinstance(s, CFGEpsilon):
                continue
            body.append(("V" if isinstance(s, CFGVariable) else "T", s.value))
        prods.append((p.head.value, body))
    return {"start": g.start_symbol.value, "prods": prods}


def observe(rx):
    """Everything C05 names, on one Regex object."""
    obs = {}
    obs["enfa"] = chx.guarded(lambda: plain_fa(rx.to_epsilon_nfa()))
    obs["accepts"] = chx.guarded(lambda: [bool(rx.accepts(w)) for w in WORDS])
    obs["cfg"] = chx.guarded(lambda: plain_cfg(rx.to_cfg()))
    obs["str"] = chx.guarded(str, rx)
    if obs["str"][0] == "ok":
        obs["reparsed"] = chx.guarded(lambda: plain_fa(Regex(obs["str"][1]).to_epsilon_nfa()))
    return obs


def judge_language(ref, obs, fails, tags, what):
    """ref: reference O.Ref; obs as produced by observe()."""
    en = obs["enfa"]
    if en[0] == "exc":
        fails.append(chx.exc_failure("to_epsilon_nfa", en, tags=tags, text=what))
    else:
        got = RX.ref_from_plain(en[1])
        eq, wit = O.equivalent(ref, got)
        if not eq:
            fails.append({"kind": "language", "op": "to_epsilon_nfa", "tags": tags,
                          "detail": "%r: automaton differs from the documented meaning on %r" % (what, wit)})
    ac = obs["accepts"]
    if ac[0] == "exc":
        fails.append(chx.exc_failure("accepts", ac, tags=tags, text=what))
    else:
        for w, v in zip(WORDS, ac[1]):
            if v != O.accepts(ref, w):
                fails.append({"kind": "verdict", "op": "accepts", "tags": tags,
                              "detail": "%r.accepts(%r) = %r" % (what, w, v)})
                break
    cg = obs["cfg"]
    if cg[0] == "exc":
        fails.append(chx.exc_failure("to_cfg", cg, tags=tags, text=what))
    else:
        g = OC.G(cg[1]["start"], [(h, [tuple(s) for s in b]) for h, b in cg[1]["prods"]])
        want = O.words_upto(ref, 3)
        got = OC.words_upto(g, 3)
        if want != got:
            diff = sorted(want ^ got)[:3]
            fails.append({"kind": "language", "op": "to_cfg", "tags": tags,
                          "detail": "%r: to_cfg() differs on %r" % (what, diff)})
    st = obs["str"]
    if st[0] == "exc":
        fails.append(chx.exc_failure("str", st, tags=tags, text=what))
    else:
        rp = obs["reparsed"]
        if rp[0] == "exc":
            fails.append(chx.exc_failure("Regex(str(r))", rp, tags=tags, text=what, printed=st[1]))
        else:
            got = RX.ref_from_plain(rp[1])
            eq, wit = O.equivalent(ref, got)
            if not eq:
                fails.append({"kind": "language", "op": "Regex(str(r))", "tags": tags,
                              "detail": "%r prints as %r which differs on %r" % (what, st[1], wit)})


def text_tags(text, cls):
    tags = [cls[0]]
    if "\\" in text:
        tags.append("has_escape")
    if "()" in text.replace(" ", ""):
        tags.append("empty_parentheses")
    return tags


def _text_oracle(args, obs):
    text = args
    cls = RX.classify(text)
    tags = text_tags(text, cls)
    fails = []
    built = obs["build"]
    if built[0] == "exc":
        if built[1] != "MisformedRegexError":
            fails.append(chx.exc_failure("Regex", built, tags=tags, text=text))
        elif cls[0] == "wf":
            fails.append({"kind": "verdict", "op": "Regex", "tags": tags,
                          "detail": "well-formed %r refused: %s" % (text, built[3])})
    elif cls[0] == "wf":
        ref = RX.to_ref(cls[1])
        judge_language(ref, obs, fails, tags, text)
    elif cls[0] == "ill" and RX.must_refuse(text):
        fails.append({"kind": "verdict", "op": "Regex", "tags": tags + ["ill_formed_accepted"],
                      "detail": "ill-formed %r (%s) is accepted instead of MisformedRegexError" % (text, cls[1])})
    # undocumented text, and a binary operator without its right operand: lenient behaviour is never flagged
    return cls[0] == "wf" and len(text) >= 3, fails, {"text": text, "class": cls[0]}


def _run_text(cond, raw, text, realize):
    chx.enter(cond, raw, realize=realize)
    built = chx.guarded(Regex, text)
    obs = {"build": (built[0], None) if built[0] == "ok" else built}
    if built[0] == "ok":
        obs.update(observe(built[1]))
    return chx.judge("C05", cond, raw, text, obs, _text_oracle)


ALPHA_Q = "ab|*(). "
ALPHA_T = "ab|*(). +$\\"


def c05_chars(s: str) -> bool:
    """
    pre: pinned(n=len(s), first=s[:1])
    pre: len(s) <= 3
    pre: all(c in ALPHA for c in s)
    post: _
    """
    return _run_text("c05_chars", (s,), s, False)


ALPHA = ALPHA_T if chx.thorough() else ALPHA_Q


# ----------------------------------------------------------------------------------------
# token level

TOK_Q = ["a", "b", "|", "+", "*", "(", ")", ".", "$", "\\|"]
TOK_T = ["a", "b", "ab", "|", "+", "*", "(", ")", ".", "epsilon", "$", "\\|", "\\*", "\\(", "\\+"]
TOK_4 = ["a", "b", "|", "*", "(", ")", ".", "$"]


def make_text(table, toks, n, gaps):
    ln = enc.pick(n, len(toks) + 1)
    g = enc.pick(gaps, 1 << max(len(toks) - 1, 0))
    parts = []
    for i in range(ln):
        if i > 0 and (g >> (i - 1)) & 1:
            parts.append(" ")
        parts.append(table[enc.pick(toks[i], len(table))])
    return "".join(parts)


def c05_tokens3(toks: Tuple[int, int, int], n: int, gaps: int) -> bool:
    """
    pre: pinned(n=n, t0=toks[0], gaps=gaps)
    pre: ((1 <= n) & (n <= 3)) & ((0 <= gaps) & (gaps < 4))
    pre: enc.word_ranges(toks, n, NTOK3)
    pre: (n >= 3 or gaps < 2) and (n >= 2 or gaps == 0)
    post: _
    """
    raw = (toks, n, gaps)
    text = make_text(TOK3, toks, n, gaps)
    return _run_text("c05_tokens3", raw, text, True)


TOK3 = TOK_T if chx.thorough() else TOK_Q
NTOK3 = len(TOK3)


def c05_tokens4(toks: Tuple[int, int, int, int], gaps: int) -> bool:
    """
    pre: pinned(t0=toks[0], t1=toks[1], gaps=gaps)
    pre: 0 <= gaps < 8
    pre: enc.in_range(toks, 8)
    post: _
    """
    raw = (toks, gaps)
    text = make_text(TOK_4, toks, 4, gaps)
    return _run_text("c05_tokens4", raw, text, True)


# redundant parentheses around a base expression, inside a context
WRAP_PREFIX = ["", "a ", "a|"]
WRAP_SUFFIX = ["", "*", " b", "|b"]
TOK_W = ["a", "b", "|", "*", "(", ")"]


def c05_wrapped(toks: Tuple[int, int, int], n: int, depth: int, prefix: int, suffix: int) -> bool:
    """
    pre: pinned(n=n, depth=depth, prefix=prefix, suffix=suffix, t0=toks[0])
    pre: ((1 <= n) & (n <= 3)) & ((1 <= depth) & (depth <= 3)) & ((0 <= prefix) & (prefix < 3)) & ((0 <= suffix) & (suffix < 4))
    pre: enc.word_ranges(toks, n, 6)
    post: _
    """
    raw = (toks, n, depth, prefix, suffix)
    base = make_text(TOK_W, toks, n, 3)
    d = enc.pick(depth, 4)
    text = WRAP_PREFIX[enc.pick(prefix, 3)] + "(" * d + base + ")" * d + WRAP_SUFFIX[enc.pick(suffix, 4)]
    with chx.NT():
        wf = RX.classify(base)[0] == "wf"
    if not wf:
        return chx.assumed_away("c05_wrapped")      # ill-formed bases are c05_tokens' business
    return _run_text("c05_wrapped", raw, text, True)


# ----------------------------------------------------------------------------------------
# combinators

def _comb_oracle(args, obs):
    t1, t2 = args
    c1, c2 = RX.classify(t1), RX.classify(t2)
    if c1[0] != "wf" or c2[0] != "wf":
        return False, [], {"texts": [t1, t2], "skipped": "not both well-formed"}
    r1, r2 = RX.to_ref(c1[1]), RX.to_ref(c2[1])
    fails = []
    wants = {"union": O.union(r1, r2), "or": O.union(r1, r2), "concatenate": O.concat(r1, r2),
             "add": O.concat(r1, r2), "kleene_star": O.star(r1),
             "concat_star": O.star(O.concat(r1, r2)), "star_concat": O.concat(O.star(r1), r2),
             "union_star": O.star(O.union(r1, r2)), "concat_union": O.union(O.concat(r1, r2), r1)}
    for op, res in obs.items():
        if res[0] == "exc":
            fails.append(chx.exc_failure(op, res, texts=[t1, t2]))
            continue
        judge_language(wants[op], res[1], fails, ["combinator_" + op], "%s(%r, %r)" % (op, t1, t2))
    return True, fails, {"texts": [t1, t2]}


def c05_combinators(ta: Tuple[int, int, int], na: int, tb: Tuple[int, int, int], nb: int) -> bool:
    """
    pre: pinned(na=na, nb=nb, a0=ta[0], b0=tb[0], a1=ta[1])
    pre: ((1 <= na) & (na <= 3)) & ((1 <= nb) & (nb <= 3))
    pre: enc.word_ranges(ta, na, 8)
    pre: enc.word_ranges(tb, nb, 8)
    post: _
    """
    raw = (ta, na, tb, nb)
    t1 = make_text(TOK_4, ta, na, 3)
    t2 = make_text(TOK_4, tb, nb, 3)
    with chx.NT():
        ok = RX.classify(t1)[0] == "wf" and RX.classify(t2)[0] == "wf"
    if not ok:
        return chx.assumed_away("c05_combinators")
    chx.enter("c05_combinators", raw)
    b1, b2 = chx.guarded(Regex, t1), chx.guarded(Regex, t2)
    if b1[0] != "ok" or b2[0] != "ok":
        return chx.assumed_away("c05_combinators")     # refusals of single texts are c05_tokens' business
    r1, r2 = b1[1], b2[1]
    obs = {}
    ops = [("union", lambda: r1.union(r2)), ("concatenate", lambda: r1.concatenate(r2)),
           ("kleene_star", lambda: r1.kleene_star()),
           ("concat_star", lambda: r1.concatenate(r2).kleene_star()),
           ("star_concat", lambda: r1.kleene_star().concatenate(r2)),
           ("union_star", lambda: r1.union(r2).kleene_star()),
           ("concat_union", lambda: r1.concatenate(r2).union(r1))]
    if chx.thorough():
        ops += [("or", lambda: r1 | r2), ("add", lambda: r1 + r2)]
    for op, fn in ops:
        res = chx.guarded(fn)
        obs[op] = ("ok", observe(res[1])) if res[0] == "ok" else res
    return chx.judge("C05", "c05_combinators", raw, (t1, t2), obs, _comb_oracle)


def _sh_chars(tier):
    alpha = ALPHA_T if tier == "thorough" else ALPHA_Q
    return [{"n": 0, "first": ""}] + product_pins(n=[1, 2, 3], first=list(alpha))


def _sh_tok3(tier):
    nt = len(TOK_T if tier == "thorough" else TOK_Q)
    return product_pins(n=[1, 2], t0=list(range(nt)), gaps=[0])[:0] + \
        product_pins(n=[3], t0=list(range(nt)), gaps=[0, 1, 2, 3]) + \
        product_pins(n=[2], t0=list(range(nt)), gaps=[0, 1]) + [{"n": 1, "gaps": 0}]


def _sh_tok4(tier):
    if tier == "quick":
        return product_pins(t0=[0, 2, 4, 6], t1=[0, 2, 3, 4, 5], gaps=[0])
    return product_pins(t0=list(range(8)), gaps=[0, 7, 2, 5])


def _sh_wrapped(tier):
    if tier == "quick":
        return product_pins(n=[1, 2, 3], depth=[2, 3], prefix=[0, 1], suffix=[0, 1])
    return product_pins(n=[1, 2, 3], depth=[1, 2, 3], prefix=[0, 1, 2], suffix=[0, 1, 2, 3])


def _sh_comb(tier):
    if tier == "quick":
        return product_pins(na=[1], nb=[1, 3], a0=[0], b0=[1]) + \
            product_pins(na=[3], nb=[1, 3], a0=[0, 4], b0=[1], a1=list(range(8)))
    return product_pins(na=[1], nb=[1, 3], a0=[0], b0=[0, 1]) + \
        product_pins(na=[3], nb=[1, 3], a0=[0, 4], b0=[0, 1], a1=list(range(8)))


FUNCS = ["Regex.__init__", "RegexReader.*", "_pre_process_regex", "_get_regex_componants", "to_node",
         "Regex.to_epsilon_nfa", "Regex.accepts", "Regex.to_cfg", "Regex.__repr__", "Regex.union",
         "Regex.concatenate", "Regex.kleene_star", "Regex.__or__", "Regex.__add__"]
RULE = "text of >=3 characters that is well-formed under the documented grammar"

CONDS = [
    Cond("C05", c05_chars, _sh_chars,
         {"quick": "ONE symbolic str, len <= 3, characters from 'ab|*(). ' — flows symbolically through the real "
                   "tokenizer (strip/re.sub/split); the solver picks the characters",
          "thorough": "len <= 3 over 'ab|*(). +$\\'"},
         FUNCS, RULE, per_path_timeout=120,
         assumptions=["text that is ill-formed or not covered by the documentation is only required not to raise "
                      "anything but MisformedRegexError (lenient acceptance is not flagged)"]),
    Cond("C05", c05_tokens3, _sh_tok3,
         {"quick": "1-3 tokens from {a,b,|,+,*,(,),.,$,\\|} x every choice of space/no space between tokens",
          "thorough": "1-3 tokens from {a,b,ab,|,+,*,(,),.,epsilon,$,\\|,\\*,\\(,\\+} x gaps"},
         FUNCS, RULE),
    Cond("C05", c05_tokens4, _sh_tok4,
         {"quick": "4 tokens from {a,b,|,*,(,),.,$}, first token in {a,|,(,.}, second in 5 values, no spaces",
          "thorough": "all 8^4 token strings x 4 spacing patterns"},
         FUNCS, RULE),
    Cond("C05", c05_wrapped, _sh_wrapped,
         {"quick": "a well-formed base of 1-3 tokens from {a,b,|,*,(,)} wrapped in 2-3 levels of redundant "
                   "parentheses, alone or after 'a ', optionally followed by '*'",
          "thorough": "1-3 levels, prefixes {'', 'a ', 'a|'}, suffixes {'', '*', ' b', '|b'}"},
         FUNCS, RULE),
    Cond("C05", c05_combinators, _sh_comb,
         {"quick": "pairs of well-formed regexes of 1 or 3 tokens from {a,b,|,*,(,),.,$}: union, concatenate, "
                   "kleene_star and the composites (r1 r2)*, r1* r2, (r1|r2)*, r1 r2|r1, each judged in all "
                   "representations (automaton, accepts, to_cfg, str round trip)",
          "thorough": "second operand starting with a or b; also | and + operators"},
         FUNCS, RULE),
]
