"""C16 — FST.translate = path semantics; union / concatenate / kleene_star = the rational operations on
relations; FiniteAutomaton.to_fst() = identity on the language.

Encoding FST(n, m): m transitions (from, in, to, out) with in 0 = epsilon / 1 = 'a', out an index into a
table of output words, in strictly increasing order (one insertion order per set of transitions), plus a
start mask and a final mask. Everything is decoded through tables into concrete labels before the library
is called. Inputs whose epsilon cycles write something are outside the property: assumed away.
"""
from typing import Tuple

from vlib import chx, enc
from vlib.chx import pinned
from vlib.oracles import fst as F
from vlib.oracles import nfa as O
from vlib.registry import Cond, product_pins

from pyformlang.fst import FST
from pyformlang.finite_automaton import (EpsilonNFA, NondeterministicFiniteAutomaton,
                                         DeterministicFiniteAutomaton)

chx.warm_networkx()

L = 2                                    # input words up to this length
CAP = 200                                # a translation of a word of length <= 2 has far fewer outputs
STAR_OUT_CAP = 4                         # output bound used when the star relates one input to infinitely many outputs
WORDS_AZ = F.words_upto(L, ("a", "z"))   # 'z' = a symbol no transition reads
WORDS_RES = [(), ("a",), ("a", "a")]   # words the library's translate() is run on for *results* of
#                                                    operations (their extracted structure is judged on WORDS_AZ)
OUTS4 = [(), ("x",), ("x", "y"), ("y",)]     # the first k output words are used when codes < (#base slots) * k
OUTS_A = [(), ("x",), ("x", "x")]
OUTS_B = [(), ("y",), ("y", "y")]

T2 = Tuple[int, int]
T3 = Tuple[int, int, int]
T4 = Tuple[int, int, int, int]
B8 = Tuple[bool, bool, bool, bool, bool, bool, bool, bool]


# ----------------------------------------------------------------------------------------
# encoding helpers (used in preconditions and decoders)

def slot_table(n, nout):
    """code -> (from, in, to, out); the output index is the most significant digit, so a smaller
    number of output words is just a smaller code range (the decoding never depends on the tier)."""
    base = [(q, a, q2) for q in range(n) for a in range(2) for q2 in range(n)]
    return [(q, a, q2, o) for o in range(nout) for (q, a, q2) in base]


SLOTS2 = slot_table(2, 4)      # 32 codes; codes < 8 * k use the first k output words
SLOTS3 = slot_table(3, 4)      # 72 codes; codes < 18 * k use the first k output words
SLOTSP = slot_table(2, 3)      # operands of union / concatenate: 24 codes


def code_of(table, q, a, q2, o):
    return table.index((q, a, q2, o))


def param(name, default):
    """A shard parameter that only *restricts* the inputs (never changes how they are decoded, so a
    recorded input replays without it)."""
    return chx.PIN.get(name, default)


def member(x, values):
    """x is one of `values` (None = unrestricted)."""
    if values is None:
        return True
    hit = False
    for v in values:
        hit = hit or x == v
    return hit


def codes_ok(t, m, nslots):
    """The first m codes strictly increasing inside range(nslots) (a set of transitions, in one
    insertion order); the unused ones 0."""
    ok = True
    for i in range(len(t)):
        if i < m:
            ok = ok and 0 <= t[i] < nslots
            if i > 0:
                ok = ok and t[i - 1] < t[i]
        else:
            ok = ok and t[i] == 0
    return ok


def bpick(x, n):
    """Concrete int equal to the symbolic x, 0 <= x < n, by bisection (log2 n forks)."""
    lo, hi = 0, n
    while hi - lo > 1:
        mid = (lo + hi) // 2
        if x < mid:
            hi = mid
        else:
            lo = mid
    return lo


def pmask(x, n):
    """Concrete value of a symbolic mask 0 <= x < 2**n and its members."""
    v = enc.pick(x, 1 << n)
    return v, [i for i in range(n) if (v >> i) & 1]


def decode_codes(t, m, table):
    """-> (concrete codes padded with 0, list of (from, in, to, out))"""
    mm = enc.pick(m, len(t) + 1)
    codes = [bpick(t[i], len(table)) for i in range(mm)]
    return tuple(codes + [0] * (len(t) - mm)), mm, [table[c] for c in codes]


def concrete_trans(trans, labels, outs, sym="a"):
    """(q, in, q2, out) indices -> (label, None | symbol, label, output tuple)"""
    return [(labels[q], None if a == 0 else sym, labels[q2], outs[o]) for q, a, q2, o in trans]


def build_fst(ctrans, starts, finals):
    """Public API only."""
    fst = FST()
    for q, a, q2, o in ctrans:
        fst.add_transition(q, "epsilon" if a is None else a, q2, list(o))
    for q in starts:
        fst.add_start_state(q)
    for q in finals:
        fst.add_final_state(q)
    return fst


def make_ref(ctrans, starts, finals):
    return F.Ref(starts=starts, finals=finals, trans=ctrans)


def _valid(ctrans, starts, finals):
    with chx.NT():
        return F.eps_cycles_write_nothing(make_ref(ctrans, starts, finals))


def _translate_all(fst, word):
    return chx.take(fst.translate(word), CAP)


def _translations(fst, words):
    """[(word, guarded result of list(translate(word)))] — realised plain data."""
    obs = []
    for w in words:
        obs.append((w, chx.guarded(_translate_all, fst, list(w))))
    return chx.R(obs)


def _result_translatable(res):
    """The property promises translate() only on transducers whose epsilon cycles write nothing; a result
    outside that class is judged through its extracted structure only."""
    if res[0] != "ok":
        return False
    with chx.NT():
        try:
            return F.eps_cycles_write_nothing(F.extract(res[1]))
        except Exception:  # noqa  (a malformed result is reported by the oracle, from the same extract)
            return False


def _translation_failures(op, want, tr, out_cap=None, **extra):
    """Failures of the library's own translate() on `tr` = [(word, guarded)] against the wanted relation."""
    fails = []
    for w, res in tr:
        if res[0] == "exc":
            fails.append(chx.exc_failure(op, res, via="translate", word=list(w), **extra))
            continue
        outs = res[1]
        if len(outs) >= CAP:
            fails.append(dict({"kind": "nonterminating", "op": op, "via": "translate",
                               "detail": "translate(%r) yielded %d outputs, reference image has %d"
                                         % (list(w), len(outs), len(F.image_of(want, w)))}, **extra))
            continue
        if out_cap is not None:
            outs = [o for o in outs if len(o) <= out_cap]
        d = F.compare_translations(want, [(w, outs)])
        if d:
            fails.append(dict({"kind": "language", "op": op, "via": "translate", "detail": d[0]}, **extra))
    return fails


# ----------------------------------------------------------------------------------------
# (a) translate = path semantics

def _translate_oracle(args, obs):
    ctrans, st, fi = args
    ref = make_ref(ctrans, st, fi)
    want = F.relation(ref, L, ("a", "z"))
    fails = _translation_failures("translate", want, obs)
    nontrivial = bool(ctrans) and bool(want)
    return nontrivial, fails, {"transitions": ctrans, "starts": st, "finals": fi,
                               "relation_size": len(want)}


def _translate_common(cond, n, table, t, m, starts, finals):
    codes, mm, trans = decode_codes(t, m, table)
    sv, st = pmask(starts, n)
    fv, fi = pmask(finals, n)
    labels = ["q0", "q1", "q2"]
    ctrans = concrete_trans(trans, labels, OUTS4)
    cst = [labels[q] for q in st]
    cfi = [labels[q] for q in fi]
    if not _valid(ctrans, cst, cfi):
        return chx.assumed_away(cond)
    raw = (codes, mm, sv, fv)          # the function's own arguments, now concrete
    chx.enter(cond, raw)
    fst = build_fst(ctrans, cst, cfi)
    obs = _translations(fst, WORDS_AZ)
    return chx.judge("C16", cond, raw, (ctrans, cst, cfi), obs, _translate_oracle)


def c16_translate(t: T3, m: int, starts: int, finals: int) -> bool:
    """
    pre: pinned(m=m, starts=starts, finals=finals, t0=t[0], t1=t[1])
    pre: 0 <= m <= 3 and 0 <= starts < 4 and 0 <= finals < 4
    pre: member(starts, param("starts_in", None)) and member(finals, param("finals_in", None))
    pre: codes_ok(t, m, param("nslots", 32)) and member(t[0], param("t0_in", None))
    post: _
    """
    return _translate_common("c16_translate", 2, SLOTS2, t, m, starts, finals)


def c16_translate3(t: T4, m: int, starts: int, finals: int) -> bool:
    """
    pre: pinned(m=m, starts=starts, finals=finals, t0=t[0], t1=t[1], t2=t[2])
    pre: 0 <= m <= 4 and 0 <= starts < 8 and 0 <= finals < 8
    pre: member(starts, param("starts_in", None)) and member(finals, param("finals_in", None))
    pre: codes_ok(t, m, param("nslots", 72)) and member(t[0], param("t0_in", None))
    post: _
    """
    return _translate_common("c16_translate3", 3, SLOTS3, t, m, starts, finals)


# outputs whose symbols print alike when joined: ['x','y'] vs ['xy'], [1, 2] vs [12] vs ['1','2']
CONFUSABLE = [(), ("x", "y"), ("xy",), ("x",), ("y",), (1, 2), (12,), ("1", "2")]
OUT_SHAPES = [
    # two or three parallel ways of reading the same input, ending in the same state
    lambda o: ([("q0", "a", "q1", o[0]), ("q0", "a", "q1", o[1])], ["q0"], ["q1"]),
    lambda o: ([("q0", "a", "q1", o[0]), ("q0", "a", "q0", o[1]), ("q1", "a", "q1", o[2])], ["q0"], ["q1"]),
    lambda o: ([("q0", "a", "q1", o[0]), ("q1", "a", "q0", o[1]), ("q0", "a", "q0", o[2])], ["q0"], ["q0", "q1"]),
]


def c16_outputs(o0: int, o1: int, o2: int, shape: int) -> bool:
    """
    pre: pinned(shape=shape, o0=o0)
    pre: ((0 <= o0) & (o0 < 8)) & ((0 <= o1) & (o1 < 8)) & ((0 <= o2) & (o2 < 8)) & ((0 <= shape) & (shape < 3))
    pre: (shape != 0) | (o2 == 0)
    post: _
    """
    raw = (o0, o1, o2, shape)
    outs = [CONFUSABLE[enc.pick(x, 8)] for x in (o0, o1, o2)]
    ctrans, cst, cfi = OUT_SHAPES[enc.pick(shape, 3)](outs)
    # add_transition with the same (state, input, state) and two outputs is legitimate: two transitions
    chx.enter("c16_outputs", raw)
    fst = build_fst(ctrans, cst, cfi)
    obs = _translations(fst, WORDS_AZ)
    return chx.judge("C16", "c16_outputs", raw, (ctrans, cst, cfi), obs, _translate_oracle)


# ----------------------------------------------------------------------------------------
# (b) union / concatenate of two transducers sharing state names

# (labels of operand A, labels of operand B)
LABEL_KINDS = [
    (["q0", "q1"], ["q0", "q1"]),      # same names
    (["q", "q0"], ["q", "q0"]),        # same names, and the obvious fresh name 'q'+'0' is taken
    (["q0", "q1"], ["q1", "q2"]),      # one shared name
    ([0, 1], [0, 1]),                  # same names, not strings
    (["q0", "q1"], ["p0", "p1"]),      # disjoint (control)
]


def _pair_oracle(args, obs):
    ta, sa, fa, tb, sb, fb = args
    ra, rb = make_ref(ta, sa, fa), make_ref(tb, sb, fb)
    rel_a, rel_b = F.relation(ra, L, ("a", "z")), F.relation(rb, L, ("a", "z"))
    want = {"union": F.rel_union(rel_a, rel_b), "concatenate": F.rel_concat(rel_a, rel_b, L)}
    shared = ra.states & rb.states
    tags = []
    if any(not isinstance(q, str) for q in shared):
        tags.append("shared_nonstring_state_name")
    if shared:
        tags.append("shared_state_name")
    fails = []
    for op, res, tr in obs:
        if res[0] == "exc":
            fails.append(chx.exc_failure(op, res, tags=tags))
            continue
        try:
            got = F.extract(res[1])
        except Exception as exc:  # noqa
            fails.append({"kind": "shape", "op": op, "detail": "result not readable: %r" % (exc,)})
            continue
        d = F.compare_structure(want[op], got, WORDS_AZ)
        if d:
            fails.append({"kind": "language", "op": op, "via": "structure", "detail": d[0],
                          "result": got.describe()})
        if tr is not None:
            fails += _translation_failures(op, want[op], tr)
    nontrivial = bool(rel_a) and bool(rel_b) and bool(ta) and bool(tb)
    return nontrivial, fails, {"A": {"transitions": ta, "starts": sa, "finals": fa},
                               "B": {"transitions": tb, "starts": sb, "finals": fb},
                               "shared_states": sorted(map(repr, shared))}


def c16_union_concat(ta: T2, ma: int, sa: int, fa: int, tb: T2, mb: int, sb: int, fb: int,
                     lab: int) -> bool:
    """
    pre: pinned(ma=ma, mb=mb, sa=sa, fa=fa, sb=sb, fb=fb, lab=lab, a0=ta[0], a1=ta[1], b0=tb[0], b1=tb[1])
    pre: 0 <= ma <= 2 and 0 <= mb <= 2 and 0 <= lab < 5
    pre: 0 <= sa < 4 and 0 <= fa < 4 and 0 <= sb < 4 and 0 <= fb < 4
    pre: codes_ok(ta, ma, param("nslots", 24)) and codes_ok(tb, mb, param("nslots", 24))
    pre: member(ta[0], param("a0_in", None)) and member(tb[0], param("b0_in", None))
    pre: member(tb[1], param("b1_in", None))
    post: _
    """
    cond = "c16_union_concat"
    lk = enc.pick(lab, 5)
    la, lb = LABEL_KINDS[lk]
    ca, mma, tra = decode_codes(ta, ma, SLOTSP)
    cb, mmb, trb = decode_codes(tb, mb, SLOTSP)
    sav, sam = pmask(sa, 2)
    fav, fam = pmask(fa, 2)
    sbv, sbm = pmask(sb, 2)
    fbv, fbm = pmask(fb, 2)
    cta = concrete_trans(tra, la, OUTS_A)
    ctb = concrete_trans(trb, lb, OUTS_B)
    csa, cfa = [la[q] for q in sam], [la[q] for q in fam]
    csb, cfb = [lb[q] for q in sbm], [lb[q] for q in fbm]
    if not (_valid(cta, csa, cfa) and _valid(ctb, csb, cfb)):
        return chx.assumed_away(cond)
    raw = (ca, mma, sav, fav, cb, mmb, sbv, fbv, lk)
    chx.enter(cond, raw)
    fst_a = build_fst(cta, csa, cfa)
    fst_b = build_fst(ctb, csb, cfb)
    obs = []
    for op in ("union", "concatenate"):
        if op == "union":
            res = chx.guarded(lambda: fst_a | fst_b)
        else:
            res = chx.guarded(lambda: fst_a + fst_b)
        tr = _translations(res[1], WORDS_RES) if _result_translatable(res) else None
        obs.append((op, res, tr))
    return chx.judge("C16", cond, raw, (cta, csa, cfa, ctb, csb, cfb), obs, _pair_oracle,
                     realize_obs=False)


# ----------------------------------------------------------------------------------------
# (b') kleene_star

def _star_tags(ref, want, got_images, cap):
    """Tags of a kleene_star failure. `got_images`: word -> set of observed outputs (len <= cap).
    star_start_final_bridge: what was observed is exactly the relation of 'operand + output-free epsilon
    bridges final->start and start->final, same start/final sets' (the known wrong construction)."""
    tags = []
    model = F.bridged_star_model(ref)
    if all(F.image(model, w, cap)[0] == outs for w, outs in got_images.items()):
        tags.append("star_start_final_bridge")
    spurious = {(w, o) for w, outs in got_images.items() for o in outs if (w, o) not in want}
    missing = {(w, o) for (w, o) in want if w in got_images and o not in got_images[w]}
    star = F.ref_star(ref)
    enter = F.Ref(states=star.states, starts=star.starts, finals=star.finals, trans=list(star.trans))
    for f in ref.finals:
        enter.add(("new",), None, (0, f), ())
    leave = F.Ref(states=star.states, starts=star.starts, finals=star.finals, trans=list(star.trans))
    for s in ref.starts:
        leave.add((0, s), None, ("new",), ())
    if any(o in F.image(enter, w, cap)[0] for (w, o) in spurious):
        tags.append("star_enters_at_final")
    if any(o in F.image(leave, w, cap)[0] for (w, o) in spurious):
        tags.append("star_exits_at_start")
    if ((), ()) in missing:
        tags.append("star_misses_empty_pair")
    if any(q in ref.finals for (q, _, _, _) in ref.trans):
        tags.append("final_state_with_outgoing_transition")
    if any(q2 in ref.starts for (_, _, q2, _) in ref.trans):
        tags.append("start_state_with_incoming_transition")
    if not ref.starts or not ref.finals:
        tags.append("no_start_or_no_final_state")
    return tags


def _star_oracle(args, obs):
    ctrans, st, fi = args
    ref = make_ref(ctrans, st, fi)
    rel = F.relation(ref, L, ("a", "z"))
    finite = F.star_is_finite(rel)
    cap = None if finite else STAR_OUT_CAP
    want = F.rel_star(rel, L, cap)
    tag_cap = cap if cap is not None else max([len(o) for (_, o) in want] + [0]) + 2
    res, tr = obs
    fails = []
    if res[0] == "exc":
        fails.append(chx.exc_failure("kleene_star", res))
    else:
        got = F.extract(res[1])
        d = F.compare_structure(want, got, WORDS_AZ, out_cap=cap)
        if d:
            images = {w: F.image(got, w, tag_cap)[0] for w in WORDS_AZ}
            fails.append({"kind": "language", "op": "kleene_star", "via": "structure", "detail": d[0],
                          "tags": _star_tags(ref, want, images, tag_cap), "result": got.describe()})
        if tr is not None:
            tf = _translation_failures("kleene_star", want, tr, out_cap=cap)
            if tf:
                images = {w: {tuple(o) for o in r[1] if len(o) <= tag_cap} for w, r in tr if r[0] == "ok"}
                tags = _star_tags(ref, want, images, tag_cap) if len(images) == len(tr) else []
                for f in tf:
                    f["tags"] = tags
                fails += tf
    nontrivial = bool(ctrans) and len(want) > 1
    return nontrivial, fails, {"transitions": ctrans, "starts": st, "finals": fi,
                               "star_finite": finite, "star_pairs": len(want)}


def c16_kleene_star(t: T3, m: int, starts: int, finals: int) -> bool:
    """
    pre: pinned(m=m, starts=starts, finals=finals, t0=t[0], t1=t[1])
    pre: 0 <= m <= 3 and 0 <= starts < 4 and 0 <= finals < 4
    pre: member(starts, param("starts_in", None)) and member(finals, param("finals_in", None))
    pre: codes_ok(t, m, param("nslots", 32)) and member(t[0], param("t0_in", None))
    post: _
    """
    cond = "c16_kleene_star"
    codes, mm, trans = decode_codes(t, m, SLOTS2)
    sv, st = pmask(starts, 2)
    fv, fi = pmask(finals, 2)
    labels = ["q0", "q1"]
    ctrans = concrete_trans(trans, labels, OUTS4)
    cst = [labels[q] for q in st]
    cfi = [labels[q] for q in fi]
    if not _valid(ctrans, cst, cfi):
        return chx.assumed_away(cond)
    raw = (codes, mm, sv, fv)
    chx.enter(cond, raw)
    fst = build_fst(ctrans, cst, cfi)
    res = chx.guarded(fst.kleene_star)
    tr = _translations(res[1], WORDS_RES) if _result_translatable(res) else None
    return chx.judge("C16", cond, raw, (ctrans, cst, cfi), (res, tr), _star_oracle, realize_obs=False)


def c16_edit(c0: int, c1: int, kind: int, starts: int, finals: int) -> bool:
    """
    pre: pinned(kind=kind, starts=starts, finals=finals, g=c0 % 4)
    pre: ((0 <= c0) & (c0 < 16)) & ((0 <= c1) & (c1 < 16)) & (c0 != c1) & ((0 <= kind) & (kind < 4))
    pre: ((1 <= starts) & (starts < 4)) & ((1 <= finals) & (finals < 4))
    post: _
    """
    # a transducer that has already translated is edited through its public API and must translate as what it
    # now is: kind 0 add the transition c1; 1 add q1 to the final states; 2 add q1 to the start states;
    # 3 add the transition c1 and make q1 final
    cond = "c16_edit"
    raw = (c0, c1, kind, starts, finals)
    first = SLOTS2[bpick(c0, 16)]
    second = SLOTS2[bpick(c1, 16)]
    kd = enc.pick(kind, 4)
    sv, st = pmask(starts, 2)
    fv, fi = pmask(finals, 2)
    labels = ["q0", "q1"]
    before = concrete_trans([first], labels, OUTS4)
    extra = concrete_trans([second], labels, OUTS4)
    after = before + (extra if kd in (0, 3) else [])
    cst = [labels[q] for q in st]
    cfi = [labels[q] for q in fi]
    cst2 = sorted(set(cst) | ({"q1"} if kd == 2 else set()))
    cfi2 = sorted(set(cfi) | ({"q1"} if kd in (1, 3) else set()))
    if not _valid(before, cst, cfi) or not _valid(after, cst2, cfi2):
        return chx.assumed_away(cond)
    chx.enter(cond, raw)
    fst = build_fst(before, cst, cfi)
    _translations(fst, WORDS_RES)              # first use
    if kd in (0, 3):
        for (q, a, q2, outs) in extra:
            fst.add_transition(q, F.EPS_MARK if a is None else a, q2, list(outs))
    if kd in (1, 3):
        fst.add_final_state("q1")
    if kd == 2:
        fst.add_start_state("q1")
    obs = _translations(fst, WORDS_AZ)
    return chx.judge("C16", cond, raw, (after, cst2, cfi2), obs, _translate_oracle)


# state names that look like the names kleene_star() / the renaming invent ("star", name + counter)
STAR_LABELS = [("star", "q1"), ("q0", "star"), ("star", "star0"), ("star0", "star"), ("star", "star1")]


def c16_star_names(t: T2, m: int, starts: int, finals: int, lab: int) -> bool:
    """
    pre: pinned(m=m, starts=starts, finals=finals, lab=lab, t0=t[0])
    pre: 1 <= m <= 2 and 0 <= starts < 4 and 0 <= finals < 4 and 0 <= lab < 5
    pre: member(starts, param("starts_in", None)) and member(finals, param("finals_in", None))
    pre: codes_ok(t, m, param("nslots", 16)) and member(t[0], param("t0_in", None))
    post: _
    """
    cond = "c16_star_names"
    codes, mm, trans = decode_codes(t, m, SLOTS2)
    sv, st = pmask(starts, 2)
    fv, fi = pmask(finals, 2)
    lb = enc.pick(lab, 5)
    labels = list(STAR_LABELS[lb])
    ctrans = concrete_trans(trans, labels, OUTS4)
    cst = [labels[q] for q in st]
    cfi = [labels[q] for q in fi]
    if not _valid(ctrans, cst, cfi):
        return chx.assumed_away(cond)
    raw = (codes, mm, sv, fv, lb)
    chx.enter(cond, raw)
    fst = build_fst(ctrans, cst, cfi)
    res = chx.guarded(fst.kleene_star)
    tr = _translations(res[1], WORDS_RES) if _result_translatable(res) else None
    return chx.judge("C16", cond, raw, (ctrans, cst, cfi), (res, tr), _star_oracle, realize_obs=False)


# ----------------------------------------------------------------------------------------
# (c) FiniteAutomaton.to_fst() = identity on the language

CLASSES = [EpsilonNFA, NondeterministicFiniteAutomaton, DeterministicFiniteAutomaton]
CLASS_NAMES = ["EpsilonNFA", "NondeterministicFiniteAutomaton", "DeterministicFiniteAutomaton"]


def _kind_ok(kind, edges, starts):
    """Validity predicate of the three automaton classes (NFA: no epsilon edge; DFA: deterministic too)."""
    if kind == 0:
        return True
    if any(s == 0 for (_, s, _) in edges):
        return False
    if kind == 1:
        return True
    heads = [(q, s) for (q, s, _) in edges]
    return len(set(heads)) == len(heads) and len(starts) <= 1


def _to_fst_oracle(args, obs):
    kind, edges, st, fi = args
    ref = enc.ref_enfa(2, edges, st, fi)
    want = {(w, w) for w in WORDS_AZ if O.accepts(ref, list(w))}
    res, tr = obs
    tags = []
    if any(s == 0 for (_, s, _) in edges):
        tags.append("automaton_has_epsilon_transition")
    if any(q in O.eclose(ref, ts) for q, ts in ref.eps.items()):
        tags.append("automaton_has_epsilon_cycle")
    fails = []
    if res[0] == "exc":
        fails.append(chx.exc_failure("to_fst", res, cls=CLASS_NAMES[kind]))
    else:
        got = F.extract(res[1])
        d = F.compare_structure(want, got, WORDS_AZ)
        if d:
            t2 = list(tags)
            if not F.compare_structure(want, F.erase_token(got, F.EPS_MARK), WORDS_AZ):
                t2.append("epsilon_written_literally")
            fails.append({"kind": "language", "op": "to_fst", "via": "structure", "cls": CLASS_NAMES[kind],
                          "detail": d[0], "tags": t2, "result": got.describe()})
        if tr is not None:
            tf = _translation_failures("to_fst", want, tr, cls=CLASS_NAMES[kind])
            if tf:
                t2 = list(tags)
                erased = [(w, ("ok", [[x for x in o if x != F.EPS_MARK] for o in r[1]])) if r[0] == "ok" else (w, r)
                          for w, r in tr]
                if not _translation_failures("to_fst", want, erased):
                    t2.append("epsilon_written_literally")
                for f in tf:
                    f["tags"] = t2
                fails += tf
    nontrivial = bool(edges) and len(want) > 0
    return nontrivial, fails, {"cls": CLASS_NAMES[kind], "edges": edges, "starts": st, "finals": fi,
                               "language_upto_2": sorted(list(w) for (w, _) in want)}


def c16_to_fst(kind: int, bits: B8, starts: int, finals: int) -> bool:
    """
    pre: pinned(kind=kind, starts=starts, finals=finals, b0=bits[0], b1=bits[1], b4=bits[4], b5=bits[5])
    pre: 0 <= kind < 3 and 0 <= starts < 4 and 0 <= finals < 4
    pre: member(starts, param("starts_in", None)) and member(finals, param("finals_in", None))
    post: _
    """
    cond = "c16_to_fst"
    kd = enc.pick(kind, 3)
    cbits = tuple(enc.flag(b) for b in bits)
    edges = enc.decode_enfa_dense(cbits, 2, 1)
    sv, st = pmask(starts, 2)
    fv, fi = pmask(finals, 2)
    if not _kind_ok(kd, edges, st):
        return chx.assumed_away(cond)
    raw = (kd, cbits, sv, fv)
    chx.enter(cond, raw)
    fa = enc.build_enfa(CLASSES[kd], 2, edges, st, fi)
    res = chx.guarded(fa.to_fst)
    tr = _translations(res[1], WORDS_AZ) if _result_translatable(res) else None
    return chx.judge("C16", cond, raw, (kd, edges, st, fi), (res, tr), _to_fst_oracle, realize_obs=False)


# ----------------------------------------------------------------------------------------
# shards

NONEMPTY = [1, 2, 3]
# (start mask, final mask) of a 2-state machine up to renaming the two states; the transition sets of a
# shard are closed under that renaming, so these five classes stand for all nine non-empty combinations
MASK_CLASSES = [(1, 1), (1, 2), (1, 3), (3, 1), (3, 3)]


def _comb(n, k):
    if k < 0 or k > n:
        return 0
    r = 1
    for i in range(k):
        r = r * (n - i) // (i + 1)
    return r


def groups_by_min(nslots, m, target):
    """Split the m-subsets of range(nslots) by their smallest code into groups of about `target` subsets."""
    groups, cur, size = [], [], 0
    for c in range(nslots - m + 1):
        cnt = _comb(nslots - 1 - c, m - 1)
        if cur and size + cnt > target:
            groups.append(cur)
            cur, size = [], 0
        cur.append(c)
        size += cnt
    if cur:
        groups.append(cur)
    return groups


def _shards_translate(tier):
    sh = []
    if tier == "quick":
        sh.append({"m": 0})
        for s in NONEMPTY:
            sh.append({"m": 1, "starts": s, "finals_in": NONEMPTY, "nslots": 24})
        for (s, f) in MASK_CLASSES:
            for g in groups_by_min(24, 2, 72):
                sh.append({"m": 2, "starts": s, "finals": f, "nslots": 24, "t0_in": g})
        # two transitions fixed, the third free: output-free eps cycle q0<->q1; q0 -eps-> q1 -a-> q1
        for t1 in (4, 7):
            sh.append({"m": 3, "t0": 1, "t1": t1, "nslots": 24, "starts_in": NONEMPTY, "finals_in": NONEMPTY})
        return sh
    sh.append({"m": 0})
    for s in range(4):
        sh.append({"m": 1, "starts": s})
    for s in NONEMPTY:
        for f in NONEMPTY:
            for g in groups_by_min(32, 2, 125):
                sh.append({"m": 2, "starts": s, "finals": f, "t0_in": g})
    for (s, f) in MASK_CLASSES:
        for g in groups_by_min(24, 3, 260):
            sh.append({"m": 3, "starts": s, "finals": f, "nslots": 24, "t0_in": g})
    return sh


# 3 states: base slot (q, a, q2) = 6 q + 3 a + q2; 18 base slots; codes < 36 = outputs {[], [x]}
MASKS3 = [(1, 4), (1, 6), (3, 4), (7, 7), (1, 1)]


def _shards_translate3(tier):
    sh = []
    for (s, f) in MASKS3:
        for g in groups_by_min(36, 2, 160):
            sh.append({"m": 2, "starts": s, "finals": f, "nslots": 36, "t0_in": g})
    # q0 -eps-> q1 -eps-> q2 + one free; the output-free eps cycle q0 -> q1 -> q2 -> q0 + one free
    sh.append({"m": 3, "t0": 1, "t1": 8, "nslots": 36, "starts_in": [1, 3, 7], "finals_in": [4, 6, 7, 1]})
    sh.append({"m": 4, "t0": 1, "t1": 8, "t2": 12, "nslots": 36, "starts_in": [1, 3, 7], "finals_in": [4, 6, 7, 1]})
    return sh


def _shards_star(tier):
    sh = []
    if tier == "quick":
        sh.append({"m": 0})
        sh.append({"m": 1, "starts": 1, "finals_in": [1, 2, 3], "nslots": 24})
        sh.append({"m": 1, "starts": 3, "finals_in": [1, 3], "nslots": 24})
        sh.append({"m": 1, "starts": 0, "finals_in": [0, 1, 3], "nslots": 16})
        sh.append({"m": 1, "finals": 0, "starts_in": [1, 3], "nslots": 16})
        for (s, f) in MASK_CLASSES:
            for g in groups_by_min(16, 2, 62):
                sh.append({"m": 2, "starts": s, "finals": f, "nslots": 16, "t0_in": g})
        return sh
    sh.append({"m": 0})
    for s in range(4):
        sh.append({"m": 1, "starts": s})
    for (s, f) in MASK_CLASSES:
        for g in groups_by_min(32, 2, 125):
            sh.append({"m": 2, "starts": s, "finals": f, "t0_in": g})
    for (s, f) in MASK_CLASSES:
        for g in groups_by_min(16, 3, 120):
            sh.append({"m": 3, "starts": s, "finals": f, "nslots": 16, "t0_in": g})
    return sh


M_SIMPLE = {"sa": 1, "fa": 2, "sb": 1, "fb": 2}
M_MIX = {"sa": 1, "fa": 3, "sb": 3, "fb": 2}       # A: two final states, B: two start states
M_ALL = {"sa": 3, "fa": 3, "sb": 3, "fb": 3}
A_ARC = 3        # code of q0 -a/[]-> q1 ; the codes above it are the moves with an output and all moves from q1
QUARTERS = ([0, 1, 2, 3], [4, 5, 6, 7], [8, 9, 10, 11], [12, 13, 14, 15])


def _shards_pair(tier):
    sh = []
    if tier == "quick":
        for g in QUARTERS:
            sh.append(dict(M_SIMPLE, ma=1, mb=1, lab=0, nslots=16, a0_in=g))
        for g in QUARTERS:
            sh.append(dict(M_MIX, ma=2, a0=A_ARC, mb=1, lab=0, nslots=16, b0_in=g))
            sh.append(dict(M_MIX, ma=1, mb=2, b0=A_ARC, lab=0, nslots=16, a0_in=g))
        for g in ([4, 5, 6], [7, 8, 9]):
            sh.append(dict(M_ALL, ma=2, a0=A_ARC, mb=2, b0=A_ARC, lab=0, nslots=16, b1_in=g))
        for lab in (1, 2, 4):
            sh.append(dict(M_MIX, ma=2, a0=A_ARC, mb=1, lab=lab, nslots=16, b0_in=[3, 6, 11, 13]))
        sh.append(dict(M_SIMPLE, ma=1, mb=1, b0=A_ARC, lab=3, nslots=16))
        sh.append({"ma": 0, "mb": 1, "lab": 0, "nslots": 16, "sa": 1, "fa": 1, "sb": 3, "fb": 3})
        sh.append({"ma": 1, "mb": 0, "lab": 0, "nslots": 16, "sa": 3, "fa": 3, "sb": 1, "fb": 1})
        sh.append({"ma": 0, "mb": 0, "lab": 0, "sb": 1, "fb": 1})
        return sh
    masks16 = [{"sa": sa, "fa": fa, "sb": sb, "fb": fb} for sa in (1, 3) for fa in (2, 3) for sb in (1, 3)
               for fb in (2, 3)]
    for mk in masks16:
        for g in (QUARTERS[0] + QUARTERS[1], QUARTERS[2] + QUARTERS[3]):
            sh.append(dict(mk, ma=1, mb=1, lab=0, nslots=16, a0_in=g))
    for mk in (M_SIMPLE, M_MIX, M_ALL, {"sa": 3, "fa": 2, "sb": 1, "fb": 3}):
        for g in QUARTERS:
            sh.append(dict(mk, ma=2, a0=A_ARC, mb=1, lab=0, nslots=16, b0_in=g))
            sh.append(dict(mk, ma=1, mb=2, b0=A_ARC, lab=0, nslots=16, a0_in=g))
        for g in ([4, 5, 6, 7], [8, 9, 10, 11], [12, 13, 14, 15]):
            sh.append(dict(mk, ma=2, a0=A_ARC, mb=2, b0=A_ARC, lab=0, nslots=16, b1_in=g))
    for lab in (1, 2, 4):
        for mk in (M_SIMPLE, M_MIX):
            for g in (QUARTERS[0] + QUARTERS[1], QUARTERS[2] + QUARTERS[3]):
                sh.append(dict(mk, ma=1, mb=1, lab=lab, nslots=16, a0_in=g))
            sh.append(dict(mk, ma=2, a0=A_ARC, mb=2, b0=A_ARC, lab=lab, nslots=16))
    sh.append(dict(M_SIMPLE, ma=1, mb=1, lab=3, nslots=16, b0_in=[3, 11]))
    # three output words per operand ([], [x], [x,x] / [], [y], [y,y]), one transition each
    for g in groups_by_min(24, 1, 4):
        sh.append(dict(M_MIX, ma=1, mb=1, lab=0, a0_in=g))
    for sa in range(4):     # an operand without transitions, every start/final mask of it
        sh.append({"ma": 0, "mb": 1, "lab": 0, "nslots": 16, "sa": sa, "sb": 3, "fb": 3})
        sh.append({"ma": 1, "mb": 0, "lab": 0, "nslots": 16, "sb": sa, "sa": 3, "fa": 3})
    sh.append({"ma": 0, "mb": 0, "lab": 0})
    return sh


def _shards_to_fst(tier):
    sh = []
    if tier == "quick":
        for (s, f) in MASK_CLASSES:
            sh.append({"kind": 0, "starts": s, "finals": f, "b0": False, "b5": False})
        for kind in (1, 2):
            sh.append({"kind": kind, "b0": False, "b1": False, "b4": False, "b5": False,
                       "starts": 1, "finals_in": [1, 2, 3]})
            sh.append({"kind": kind, "b0": False, "b1": False, "b4": False, "b5": False,
                       "starts": 3, "finals_in": [1, 3]})
        return sh
    for s in range(4):
        for f in range(4):
            sh.append({"kind": 0, "starts": s, "finals": f})
    for kind in (1, 2):
        sh.append({"kind": kind, "b0": False, "b1": False, "b4": False, "b5": False})
    return sh


F_TRANSLATE = ["FST.translate", "FST.add_transition", "FST.add_start_state", "FST.add_final_state"]
F_OPS = F_TRANSLATE + ["FST.union", "FST.__or__", "FST.concatenate", "FST.__add__", "FST._copy_into",
                       "FST._add_transitions_to", "FST._add_extremity_states_to", "FST._add_start_states_to",
                       "FST._add_final_states_to", "FST._get_state_renaming", "FSTStateRemaining.add_state",
                       "FSTStateRemaining.add_states", "FSTStateRemaining.get_name"]
F_STAR = F_TRANSLATE + ["FST.kleene_star", "FST._add_transitions_to", "FST._add_extremity_states_to",
                        "FSTStateRemaining.add_states", "FSTStateRemaining.get_name"]
F_TOFST = F_TRANSLATE + ["FiniteAutomaton.to_fst", "EpsilonNFA.add_transition",
                         "NondeterministicFiniteAutomaton.add_transition",
                         "DeterministicFiniteAutomaton.add_transition"]

ASSUME = ["transducers with an epsilon cycle that writes output are outside the property (assumed away, counted)",
          "the library's translate() is run on an operation's result only when the result's own epsilon cycles "
          "write nothing (the class the property promises translate() for); otherwise the result is judged "
          "through its extracted structure alone"]
VALID = "inputs whose epsilon cycles write something are assumed away"

CONDS = [
    Cond("C16", c16_outputs, lambda tier: product_pins(shape=[0, 1, 2], o0=list(range(8))),
         {"quick": "3 shapes with parallel ways of reading the same input x output words drawn from "
                   "{[], [x,y], [xy], [x], [y], [1,2], [12], ['1','2']} (outputs that print alike when joined)",
          "thorough": "same"},
         F_TRANSLATE, "always"),
    Cond("C16", c16_to_fst, _shards_to_fst,
         {"quick": "EpsilonNFA with 2 states over {a} without epsilon self-loops (64 edge sets) x 5 mask classes; "
                   "NFA / DFA with 2 states over {a} (16 edge sets, valid ones) x 9 non-empty masks; words <=2 over {a,z}",
          "thorough": "all 256 epsilon-NFAs with 2 states over {a} x all 16 masks; all NFA / DFA x 16 masks"},
         F_TOFST, "the automaton has an edge and accepts a word of length <=2",
         shard_timeout={"quick": 900, "thorough": 3000}),
    Cond("C16", c16_union_concat, _shards_pair,
         {"quick": "A | B and A + B for 2-state operands over in {eps,a}, outputs A {[],[x]}, B {[],[y]}, both using "
                   "the state names q0,q1: 1 transition each (all 256 pairs) x masks {simple, all states start and "
                   "final}; 2 transitions (q0-a/[]->q1 + any larger code) against 1 or 2 transitions, all masks set; "
                   "name schemes {q,q0}/{q,q0}, {q0,q1}/{q1,q2}, ints {0,1}/{0,1}, disjoint on slices; empty "
                   "operands; relation of the extracted result on all words <=2 over {a,z}, library translate on "
                   "the result for [], [a], [a,a], [a,z]; " + VALID,
          "thorough": "1 transition each (all 256 pairs) x 16 start/final mask combinations (A starts {q0}|{q0,q1}, A "
                      "finals {q1}|both, same for B); 2 transitions (q0-a/[]->q1 + any larger code) against 1 or 2 x 4 "
                      "mask combinations; the 3 other string name schemes x 2 masks, int names on a slice; 3 output "
                      "words per operand for single transitions; empty operands with every mask; " + VALID},
         F_OPS, "both operands have a transition and a non-empty relation on words <=2", assumptions=ASSUME,
         shard_timeout={"quick": 900, "thorough": 3000}),
    Cond("C16", c16_kleene_star, _shards_star,
         {"quick": "kleene_star of FST with 2 states, in {eps,a}: <=1 transition with outputs {[],[x],[x,y]} x 10 "
                   "start/final mask classes (incl. empty start or final set), all sets of 2 transitions with outputs "
                   "{[],[x]} x the 5 non-empty mask classes; star relation for inputs <=2 over {a,z} (outputs <=4 "
                   "symbols when the star relates one input to infinitely many outputs); " + VALID,
          "thorough": "<=1 transition x all 16 masks and all sets of 2 transitions x the 5 non-empty mask classes with outputs "
                      "{[],[x],[x,y],[y]}; all sets of 3 transitions with outputs {[],[x]} x 5 mask classes; " + VALID},
         F_STAR, "the FST has a transition and its star relates more than the empty pair", assumptions=ASSUME,
         shard_timeout={"quick": 900, "thorough": 3000}),
    Cond("C16", c16_translate, _shards_translate,
         {"quick": "FST with 2 states, in {eps,a}, outputs {[],[x],[x,y]}: all sets of <=2 transitions (m=0: all 16 "
                   "start/final masks; m=1: all non-empty masks; m=2: the 5 classes of non-empty masks up to "
                   "renaming the states) + all sets of 3 transitions containing {q0-eps/[]->q1, q1-eps/[]->q0} or "
                   "{q0-eps/[]->q1, q1-a/[]->q1} as their two smallest codes, all non-empty masks; "
                   "every input word of length <=2 over {a, z(unknown)}; " + VALID,
          "thorough": "FST with 2 states, in {eps,a}: all sets of <=2 transitions with outputs {[],[x],[x,y],[y]} x "
                      "all 16 masks (2 transitions: the 9 non-empty ones); all sets of 3 transitions with outputs {[],[x],[x,y]} x the 5 mask classes; "
                      "every input word of length <=2 over {a, z}; " + VALID},
         F_TRANSLATE, "the FST has a transition and relates some word of length <=2 to an output",
         assumptions=ASSUME, shard_timeout={"quick": 900, "thorough": 3000}),
    Cond("C16", c16_translate3, _shards_translate3,
         {"thorough": "FST with 3 states, in {eps,a}, outputs {[],[x]}: all sets of 2 transitions x 5 start/final "
                      "masks; sets of 3 (4) transitions whose 2 (3) smallest are the eps chain q0->q1->q2 (the "
                      "output-free eps cycle q0->q1->q2->q0) x 12 masks; every word of length <=2 over {a, z}; "
                      + VALID},
         F_TRANSLATE, "the FST has a transition and relates some word of length <=2 to an output",
         tiers=("thorough",), assumptions=ASSUME),
    Cond("C16", c16_star_names,
         lambda tier: [dict(m=1, starts=st_, finals=fi_, lab=lb_, nslots=16) for lb_ in range(5)
                       for (st_, fi_) in ((1, 2), (3, 3))] +
                      [dict(m=2, starts=st_, finals=fi_, lab=lb_, nslots=16 if tier == "thorough" else 8)
                       for lb_ in range(5) for (st_, fi_) in (((1, 2), (3, 3), (1, 3)) if tier == "thorough" else ((1, 2),))],
         {"quick": "kleene_star of 2-state FSTs whose states are called like the names the construction invents "
                   "(('star',q1), (q0,'star'), ('star','star0'), ('star0','star'), ('star','star1')): 1 transition "
                   "(outputs {[],[x]}) x masks {start q0, final q1} / {all}, 2 transitions without output x one mask; " + VALID,
          "thorough": "2 transitions with outputs {[],[x]} x 3 masks"},
         F_STAR, "the FST has a transition and its star relates more than the empty pair", assumptions=ASSUME),
    Cond("C16", c16_edit, lambda tier: product_pins(kind=[0, 1, 2, 3], starts=[1] if tier == "quick" else [1, 3],
                                                    finals=[2] if tier == "quick" else [1, 2, 3], g=[0, 1, 2, 3]),
         {"quick": "a 2-state FST with one transition (in {eps,a}, outputs {[],[x]}) translates [], [a], [a,a], is then "
                   "edited through the public API (add another transition / make q1 final / make q1 a start state / "
                   "both) and translates again: judged as the edited machine on every word <=2 over {a,z}; start q0, "
                   "final q1; " + VALID,
          "thorough": "start masks {q0} / {q0,q1}, every non-empty final mask"},
         F_TRANSLATE,
         "the edited FST relates some word of length <=2 to an output", assumptions=ASSUME),
]
