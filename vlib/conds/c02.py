"""C02 — equivalence decided exactly; minimisation reduced and canonical."""
from typing import Tuple

from vlib import chx, enc
from vlib.chx import pinned
from vlib.oracles import nfa as O
from vlib.registry import Cond, product_pins

from pyformlang.finite_automaton import EpsilonNFA, DeterministicFiniteAutomaton

sparse_canonical = enc.sparse_canonical


def decode_dfa(d, start, finals, n, k):
    """d: n*k ints in 0..n (0 = no transition, i+1 = to state i); start in 0..n (0 = none)."""
    edges = []
    for q in range(n):
        for a in range(k):
            v = enc.pick(d[q * k + a], n + 1)
            if v > 0:
                edges.append((q, a + 1, v - 1))
    s = enc.pick(start, n + 1)
    starts = [] if s == 0 else [s - 1]
    fin = enc.mask_members(finals, n)
    return edges, starts, fin


def dfa_tags(ref):
    tags = []
    if O.is_empty(ref):
        tags.append("empty_language")
    reach = O.reachable(ref)
    dead = [q for q in O.dead_states(ref) if q in reach]
    if dead:
        tags.append("reachable_dead_state")
    if any(q not in reach for q in ref.states):
        tags.append("unreachable_state")
    return tags


def _min_failures(op, ref, res):
    """minimize(): equivalent, DFA shape, all states reachable, explicit states pairwise distinguishable."""
    fails = []
    if res[0] == "exc":
        return [chx.exc_failure(op, res, tags=dfa_tags(ref))], None
    got = O.extract(res[1])
    eq, wit = O.equivalent(ref, got)
    if not eq:
        fails.append({"kind": "language", "op": op, "detail": "differs on %r" % (wit,),
                      "result": got.describe(), "tags": dfa_tags(ref)})
    probs = O.dfa_shape_problems(got)
    if probs:
        fails.append({"kind": "shape", "op": op, "detail": "; ".join(probs), "tags": dfa_tags(ref)})
        return fails, got
    unreach = [q for q in got.states if q not in O.reachable(got)]
    if unreach:
        fails.append({"kind": "shape", "op": op, "detail": "unreachable states %r" % (unreach,),
                      "result": got.describe(), "tags": dfa_tags(ref)})
    ind = O.indistinguishable_pairs(got)
    if ind:
        fails.append({"kind": "shape", "op": op, "detail": "indistinguishable states %r" % (ind,),
                      "result": got.describe(), "tags": dfa_tags(ref)})
    return fails, got


# ----------------------------------------------------------------------------------------

D2 = Tuple[int, int]
D4 = Tuple[int, int, int, int]
D3 = Tuple[int, int, int]


def c02_equiv_dfa(dx: D2, sx: int, fx: int, dy: D2, sy: int, fy: int, yalpha: int) -> bool:
    """
    pre: pinned(sx=sx, sy=sy, fx=fx, yalpha=yalpha, dx0=dx[0])
    pre: ((0 <= dx[0]) & (dx[0] <= 2)) & ((0 <= dx[1]) & (dx[1] <= 2)) & ((0 <= sx) & (sx <= 2)) & ((0 <= fx) & (fx < 4))
    pre: ((0 <= dy[0]) & (dy[0] <= 2)) & ((0 <= dy[1]) & (dy[1] <= 2)) & ((0 <= sy) & (sy <= 2)) & ((0 <= fy) & (fy < 4)) & ((0 <= yalpha) & (yalpha < 2))
    post: _
    """
    raw = (dx, sx, fx, dy, sy, fy, yalpha)
    ex, stx, fix = decode_dfa(dx, sx, fx, 2, 1)
    ey, sty, fiy = decode_dfa(dy, sy, fy, 2, 1)
    ya = enc.pick(yalpha, 2)
    xsyms = ["a"]
    ysyms = ["a"] if ya == 0 else ["b"]
    chx.enter("c02_equiv_dfa", raw)
    X = enc.build_enfa(DeterministicFiniteAutomaton, 2, ex, stx, fix, syms=xsyms)
    Y = enc.build_enfa(DeterministicFiniteAutomaton, 2, ey, sty, fiy, syms=ysyms, labels=["p", "q"])
    verdicts = [("==", chx.guarded(lambda: X == Y))]
    if chx.thorough():
        verdicts += [("is_equivalent_to", chx.guarded(X.is_equivalent_to, Y)),
                     ("is_equivalent_to_rev", chx.guarded(Y.is_equivalent_to, X))]
    obs = {"verdicts": verdicts, "mins": (chx.guarded(X.minimize), chx.guarded(Y.minimize))}
    return chx.judge("C02", "c02_equiv_dfa", raw,
                     ((2, ex, stx, fix, xsyms), (2, ey, sty, fiy, ysyms, ["p", "q"])), obs, _equiv_oracle2,
                     realize_obs=False)


def _equiv_oracle2(args, obs):
    xs, ys = args
    xspec = xs
    # y carries labels as 6th element
    rx = enc.ref_enfa(xs[0], xs[1], xs[2], xs[3], syms=xs[4], labels=(xs[5] if len(xs) > 5 else None))
    ry = enc.ref_enfa(ys[0], ys[1], ys[2], ys[3], syms=ys[4], labels=(ys[5] if len(ys) > 5 else None))
    return _equiv_core(rx, ry, obs)


def _equiv_core(rx, ry, obs):
    want, wit = O.equivalent(rx, ry)
    tags = sorted(set(["x_" + t for t in dfa_tags(rx)] + ["y_" + t for t in dfa_tags(ry)]))
    fails = []
    for op, res in obs["verdicts"]:
        if res[0] == "exc":
            fails.append(chx.exc_failure(op, res, tags=tags))
        elif bool(res[1]) != want:
            fails.append({"kind": "verdict", "op": op, "tags": tags,
                          "detail": "%s says %r, languages %s (witness %r)" % (
                              op, res[1], "equal" if want else "differ", wit)})
    if want and obs.get("mins"):
        mx, my = obs["mins"]
        if mx[0] == "ok" and my[0] == "ok":
            gx, gy = O.extract(mx[1]), O.extract(my[1])
            if not O.dfa_shape_problems(gx) and not O.dfa_shape_problems(gy) and not O.isomorphic(gx, gy):
                fails.append({"kind": "shape", "op": "minimize_isomorphic", "tags": tags,
                              "detail": "equivalent automata minimise to non-isomorphic results",
                              "x_min": gx.describe(), "y_min": gy.describe()})
    nontrivial = bool(rx.finals) and bool(ry.finals) and bool(rx.starts) and bool(ry.starts)
    return nontrivial, fails, {"x": rx.describe(), "y": ry.describe(), "equivalent": want}


T6 = Tuple[int, int, int, int, int, int]


def c02_equiv_mixed(t: T6, m: int, sx: int, fx: int, dy: D4, sy: int, fy: int) -> bool:
    """
    pre: pinned(m=m, sx=sx, fx=fx, sy=sy, t1=t[1])
    pre: ((0 <= m) & (m <= 2)) & ((0 <= sx) & (sx < 4)) & ((0 <= fx) & (fx < 4))
    pre: enc.sparse_ranges(t, 2, 2)
    pre: sparse_canonical(t, m)
    pre: enc.in_range(dy, 3) & ((0 <= sy) & (sy <= 2)) & ((0 <= fy) & (fy < 4)) & (dy[1] == 0) & (dy[3] == 0)
    post: _
    """
    raw = (t, m, sx, fx, dy, sy, fy)
    ex = enc.decode_enfa_sparse(t, m, 2, 2)
    stx = enc.mask_members(sx, 2)
    fix = enc.mask_members(fx, 2)
    ey, sty, fiy = decode_dfa(dy, sy, fy, 2, 2)
    chx.enter("c02_equiv_mixed", raw)
    X = enc.build_enfa(EpsilonNFA, 2, ex, stx, fix)
    Y = enc.build_enfa(DeterministicFiniteAutomaton, 2, ey, sty, fiy)
    obs = {"verdicts": [("is_equivalent_to", chx.guarded(X.is_equivalent_to, Y)),
                        ("==", chx.guarded(lambda: X == Y)),
                        ("is_equivalent_to_rev", chx.guarded(Y.is_equivalent_to, X))],
           "mins": (chx.guarded(X.minimize), chx.guarded(Y.minimize))}
    return chx.judge("C02", "c02_equiv_mixed", raw,
                     ((2, ex, stx, fix, enc.SYMS), (2, ey, sty, fiy, enc.SYMS)), obs, _equiv_oracle2,
                     realize_obs=False)


# ----------------------------------------------------------------------------------------

def _minimal_oracle(args, obs):
    n, k, edges, starts, finals, labels = args
    ref = enc.ref_enfa(n, edges, starts, finals, labels=labels)
    fails, got = _min_failures("minimize", ref, obs["min"])
    # idempotence up to isomorphism: minimize(minimize(x)) is isomorphic to minimize(x)
    if got is not None and obs["minmin"][0] == "ok" and not fails:
        gg = O.extract(obs["minmin"][1])
        if not O.dfa_shape_problems(gg) and not O.isomorphic(got, gg):
            fails.append({"kind": "shape", "op": "minimize_isomorphic", "tags": dfa_tags(ref),
                          "detail": "minimize(minimize(x)) not isomorphic to minimize(x)",
                          "x_min": got.describe(), "y_min": gg.describe()})
    elif obs["minmin"][0] == "exc":
        fails.append(chx.exc_failure("minimize.minimize", obs["minmin"], tags=dfa_tags(ref)))
    nontrivial = bool(edges) and bool(starts) and bool(finals)
    return nontrivial, fails, ref.describe()


def _minimal(cond, raw, n, k, edges, starts, finals, labels=None, order=None):
    chx.enter(cond, raw)
    X = enc.build_enfa(DeterministicFiniteAutomaton, n, edges, starts, finals, labels=labels, order=order)
    mres = chx.guarded(X.minimize)
    obs = {"min": mres,
           "minmin": chx.guarded(mres[1].minimize) if mres[0] == "ok" else ("ok", None)}
    if obs["minmin"][1] is None and mres[0] == "ok":
        obs["minmin"] = ("exc", "None", None, "")
    return chx.judge("C02", cond, raw, (n, k, edges, starts, finals, labels), obs, _minimal_oracle,
                     realize_obs=False)


def c02_minimal_31(d: D3, s: int, f: int, perm: int) -> bool:
    """
    pre: pinned(s=s, f=f, perm=perm, d0=d[0])
    pre: enc.in_range(d, 4) & ((0 <= s) & (s <= 3)) & ((0 <= f) & (f < 8)) & ((0 <= perm) & (perm < 6))
    post: _
    """
    edges, starts, fin = decode_dfa(d, s, f, 3, 1)
    labels = enc.perm_of(perm, 3)
    return _minimal("c02_minimal_31", (d, s, f, perm), 3, 1, edges, starts, fin, labels=labels)


def c02_minimal_22(d: D4, s: int, f: int) -> bool:
    """
    pre: pinned(s=s, f=f, d0=d[0])
    pre: enc.in_range(d, 3) & ((0 <= s) & (s <= 2)) & ((0 <= f) & (f < 4))
    post: _
    """
    edges, starts, fin = decode_dfa(d, s, f, 2, 2)
    return _minimal("c02_minimal_22", (d, s, f), 2, 2, edges, starts, fin)


D6 = Tuple[int, int, int, int, int, int]


def c02_minimal_32(d: D6, s: int, f: int) -> bool:
    """
    pre: pinned(s=s, f=f, d0=d[0], d1=d[1])
    pre: enc.in_range(d, 4) & ((0 <= s) & (s <= 1)) & ((0 <= f) & (f < 8))
    post: _
    """
    edges, starts, fin = decode_dfa(d, s, f, 3, 2)
    return _minimal("c02_minimal_32", (d, s, f), 3, 2, edges, starts, fin)


D4b = Tuple[int, int, int, int]


def c02_minimal_41(d: D4b, s: int, f: int) -> bool:
    """
    pre: pinned(s=s, f=f, d0=d[0])
    pre: enc.in_range(d, 5) & ((0 <= s) & (s <= 1)) & ((0 <= f) & (f < 16))
    post: _
    """
    edges, starts, fin = decode_dfa(d, s, f, 4, 1)
    return _minimal("c02_minimal_41", (d, s, f), 4, 1, edges, starts, fin)


D5 = Tuple[int, int, int, int, int]
FIN52 = [[2, 3, 4], [0, 2, 4]]


def c02_minimal_52(b: D5, fin: int, arow: int) -> bool:
    """
    pre: pinned(arow=arow, fin=fin, b0=b[0], b1=b[1])
    pre: enc.in_range(b, 6) & ((0 <= fin) & (fin < 2)) & ((0 <= arow) & (arow < 4))
    post: _
    """
    # 5 states over {a,b}: the a-row is a chain or a permutation (enc.DFA5_AROWS), the b-transitions are arbitrary
    # (0 = none); sizes at which the Hopcroft processing list holds a class for both symbols at once (not
    # reachable with <= 4 states)
    edges = enc.dfa5_edges(arow, b)
    finals = FIN52[enc.pick(fin, 2)]
    return _minimal("c02_minimal_52", (b, fin, arow), 5, 2, edges, [0], finals)


def _sh_min52(tier):
    if tier == "quick":
        return product_pins(arow=[0, 1], fin=[0, 1], b0=[0, 3, 5], b1=[0, 3])
    return product_pins(arow=[0, 1, 2, 3], fin=[0, 1], b0=list(range(6)), b1=[0, 2, 3, 5])


def _sh_equiv_dfa(tier):
    if tier == "quick":
        return product_pins(sx=[1], sy=[0, 1], fx=[1, 2], yalpha=[0, 1], dx0=[0, 1, 2])
    return product_pins(sx=[1], sy=[0, 1, 2], fx=[0, 1, 2, 3], yalpha=[0, 1], dx0=[0, 1, 2])


def _sh_equiv_mixed(tier):
    return product_pins(m=[1, 2], sx=[1, 3], fx=[2], sy=[1], t1=[0, 1, 2])


def _sh_min31(tier):
    if tier == "quick":
        return product_pins(s=[0, 1, 2], f=[1, 2, 3, 5, 6], perm=[0, 4])
    return product_pins(s=[0, 1, 2, 3], f=list(range(8)), perm=[0, 1, 2, 3, 4, 5])


def _sh_min22(tier):
    return product_pins(s=[0, 1, 2], f=[0, 1, 2, 3])


def _sh_min32(tier):
    return product_pins(s=[1], f=list(range(1, 8)), d0=[0, 1, 2, 3], d1=[0, 1, 2, 3])


def _sh_min41(tier):
    return product_pins(s=[1], f=list(range(1, 16)), d0=[0, 1, 2, 3, 4])


FUNCS = ["DeterministicFiniteAutomaton.minimize", "DeterministicFiniteAutomaton._get_partition",
         "DeterministicFiniteAutomaton.is_equivalent_to", "DeterministicFiniteAutomaton._is_equivalent_to_minimal",
         "FiniteAutomaton.is_equivalent_to", "FiniteAutomaton.__eq__", "Partition", "HopcroftProcessingList",
         "EpsilonNFA.minimize", "EpsilonNFA.to_deterministic"]
RULE = "both automata have a start and a final state / the automaton has an edge, a start and a final state"

CONDS = [
    Cond("C02", c02_equiv_dfa, _sh_equiv_dfa,
         {"quick": "ordered pairs X,Y of partial DFAs with 2 states over one symbol: X start=state 0, final mask "
                   "{0} or {1} (18), Y start none or state 0 (72), Y's symbol = X's or a different one; ==, and "
                   "minimise-isomorphism for equivalent pairs",
          "thorough": "X with start state 0 (36) x all 108 Y x same/different alphabet; is_equivalent_to both ways and =="},
         FUNCS, RULE),
    Cond("C02", c02_equiv_mixed, _sh_equiv_mixed,
         {"thorough": "X eps-NFA 2 states over {a,b} with 1-2 edges (eps allowed), starts {0}/{0,1}, final {1}; "
                      "Y partial DFA 2 states over {a} (no b-transitions), start 0"},
         FUNCS, RULE, tiers=("thorough",)),
    Cond("C02", c02_minimal_31, _sh_min31,
         {"quick": "partial DFAs with 3 states over {a}: 4^3 transition tables (sharded), start in {none,0,1}, "
                   "5 final masks, 2 label permutations",
          "thorough": "all 2048 x 6 label permutations"},
         FUNCS, RULE),
    Cond("C02", c02_minimal_22, _sh_min22,
         {"quick": "all partial DFAs with 2 states over {a,b} (972)", "thorough": "same"},
         FUNCS, RULE),
    Cond("C02", c02_minimal_52, _sh_min52,
         {"quick": "5-state partial DFAs over {a,b}: a-row = chain 0->1->2->3->4 or the permutation 0->0, 1->2->3->4->1, "
                   "plus arbitrary b-transitions with the first two pinned to 6 combinations, final sets {2,3,4} / "
                   "{0,2,4} (a slice of a size exhaustive search cannot reach: the Hopcroft work-list only holds one "
                   "class for two symbols from 5 states on)",
          "thorough": "4 a-rows (chain, two permutations, 5-cycle) x b-tables with b1 in 4 values x the two final sets"},
         FUNCS, RULE),
    Cond("C02", c02_minimal_32, _sh_min32,
         {"thorough": "partial DFAs with 3 states over {a,b}, start 0, non-empty final mask (4^6 x 7)"},
         FUNCS, RULE, tiers=("thorough",)),
    Cond("C02", c02_minimal_41, _sh_min41,
         {"thorough": "partial DFAs with 4 states over {a}, start 0, non-empty final mask (5^4 x 15)"},
         FUNCS, RULE, tiers=("thorough",)),
]
