"""C03 — Boolean and rational operations on automata compute the set-theoretic result."""
from typing import Tuple

from vlib import chx, enc
from vlib.chx import pinned
from vlib.oracles import nfa as O
from vlib.registry import Cond, product_pins

from pyformlang.finite_automaton import EpsilonNFA
from vlib.conds.c01 import CLASSES, CLASS_NAMES, kind_ok, B8

sparse_canonical = enc.sparse_canonical
T9 = Tuple[int, int, int, int, int, int, int, int, int]
T6 = Tuple[int, int, int, int, int, int]


def operand_tags(ref, prefix=""):
    tags = []
    if not O.is_deterministic_def(ref):
        tags.append(prefix + "nondeterministic")
    if any(ref.eps.values()):
        tags.append(prefix + "has_epsilon")
    if not ref.starts:
        tags.append(prefix + "no_start_state")
    if len(ref.starts) > 1:
        tags.append(prefix + "several_start_states")
    if not ref.finals:
        tags.append(prefix + "no_final_state")
    return tags


def compare(op, res, want, tags, fails):
    if res[0] == "exc":
        fails.append(chx.exc_failure(op, res, tags=tags))
        return
    got = O.extract(res[1])
    eq, wit = O.equivalent(want, got)
    if not eq:
        fails.append({"kind": "language", "op": op, "tags": tags,
                      "detail": "differs on %r (result accepts: %r)" % (wit, O.accepts(got, wit)),
                      "result": got.describe()})


# ----------------------------------------------------------------------------------------
# unary

def _unary_oracle(args, obs):
    n, k, edges, starts, finals = args
    ref = enc.ref_enfa(n, edges, starts, finals)
    tags = operand_tags(ref)
    wants = {"get_complement": O.complement(ref), "neg": O.complement(ref),
             "reverse": O.reverse(ref), "invert": O.reverse(ref), "kleene_star": O.star(ref)}
    fails = []
    for op, res in obs:
        compare(op, res, wants[op], tags, fails)
    nontrivial = bool(edges) and bool(starts) and bool(finals)
    return nontrivial, fails, dict(ref.describe(), tags=tags)


def c03_unary(k: int, t: T9, m: int, starts: int, finals: int) -> bool:
    """
    pre: pinned(k=k, m=m, starts=starts, finals=finals, t0=t[0], t1=t[1])
    pre: ((1 <= k) & (k <= 2)) & ((0 <= m) & (m <= 3)) & ((0 <= starts) & (starts < 4)) & ((0 <= finals) & (finals < 4))
    pre: enc.sparse_ranges(t, 2, k)
    pre: sparse_canonical(t, m)
    post: _
    """
    raw = (k, t, m, starts, finals)
    kk = enc.pick(k, 3)
    edges = enc.decode_enfa_sparse(t, m, 2, kk)
    st = enc.mask_members(starts, 2)
    fi = enc.mask_members(finals, 2)
    chx.enter("c03_unary", raw)
    A = enc.build_enfa(EpsilonNFA, 2, edges, st, fi)
    obs = [("get_complement", chx.guarded(A.get_complement)),
           ("reverse", chx.guarded(A.reverse)),
           ("kleene_star", chx.guarded(A.kleene_star))]
    if chx.thorough():
        obs += [("neg", chx.guarded(lambda: -A)), ("invert", chx.guarded(lambda: ~A))]
    return chx.judge("C03", "c03_unary", raw, (2, kk, edges, st, fi), obs, _unary_oracle,
                     realize_obs=False)


# ----------------------------------------------------------------------------------------
# binary

def _binary_oracle(args, obs):
    (ea, sa, fa), (eb, sb, fb, bsyms), same = args
    ra = enc.ref_enfa(2, ea, sa, fa)
    rb = ra if same else enc.ref_enfa(2, eb, sb, fb, syms=bsyms)
    tags = operand_tags(ra, "a_") + operand_tags(rb, "b_")
    if same:
        tags.append("same_object")
    wants = {
        "get_intersection": lambda: O.combine([ra, rb], lambda x, y: x and y),
        "and": lambda: O.combine([ra, rb], lambda x, y: x and y),
        "get_difference": lambda: O.combine([ra, rb], lambda x, y: x and not y),
        "sub": lambda: O.combine([ra, rb], lambda x, y: x and not y),
        "union": lambda: O.union(ra, rb),
        "concatenate": lambda: O.concat(ra, rb),
    }
    fails = []
    for op, res in obs:
        compare(op, res, wants[op](), tags, fails)
    nontrivial = bool(ea) and bool(sa) and bool(fa) and (same or (bool(eb) and bool(sb) and bool(fb)))
    return nontrivial, fails, {"a": ra.describe(), "b": rb.describe(), "tags": tags}


def _binary(cond, raw, ops, ta, ma, sa, fa, tb, mb, sb, fb, bsym, same):
    ea = enc.decode_enfa_sparse(ta, ma, 2, 1)
    sta = enc.mask_members(sa, 2)
    fia = enc.mask_members(fa, 2)
    eb = enc.decode_enfa_sparse(tb, mb, 2, 1)
    stb = enc.mask_members(sb, 2)
    fib = enc.mask_members(fb, 2)
    bs = enc.pick(bsym, 2)
    bsyms = ["a"] if bs == 0 else ["b"]
    chx.enter(cond, raw)
    A = enc.build_enfa(EpsilonNFA, 2, ea, sta, fia)
    B = A if same else enc.build_enfa(EpsilonNFA, 2, eb, stb, fib, syms=bsyms)
    obs = []
    for op in ops:
        if op == "and":
            obs.append((op, chx.guarded(lambda: A & B)))
        elif op == "sub":
            obs.append((op, chx.guarded(lambda: A - B)))
        else:
            obs.append((op, chx.guarded(getattr(A, op), B)))
    return chx.judge("C03", cond, raw, ((ea, sta, fia), (eb, stb, fib, bsyms), same), obs,
                     _binary_oracle, realize_obs=False)


PRE_DOC = """
    pre: ((0 <= ma) & (ma <= 2)) & ((0 <= mb) & (mb <= 2)) & ((0 <= sa) & (sa < 4)) & ((0 <= fa) & (fa < 4)) & ((0 <= sb) & (sb < 4)) & ((0 <= fb) & (fb < 4))
    pre: enc.sparse_ranges(ta, 2, 1)
    pre: enc.sparse_ranges(tb, 2, 1)
    pre: sparse_canonical(ta, ma) & sparse_canonical(tb, mb) & ((0 <= bsym) & (bsym < 2))
"""


def c03_boolean(ta: T6, ma: int, sa: int, fa: int, tb: T6, mb: int, sb: int, fb: int, bsym: int) -> bool:
    """
    pre: pinned(ma=ma, mb=mb, sa=sa, fa=fa, sb=sb, fb=fb, bsym=bsym)
    pre: ((0 <= ma) & (ma <= 2)) & ((0 <= mb) & (mb <= 2)) & ((0 <= sa) & (sa < 4)) & ((0 <= fa) & (fa < 4)) & ((0 <= sb) & (sb < 4)) & ((0 <= fb) & (fb < 4))
    pre: enc.sparse_ranges(ta, 2, 1)
    pre: enc.sparse_ranges(tb, 2, 1)
    pre: sparse_canonical(ta, ma) & sparse_canonical(tb, mb) & ((0 <= bsym) & (bsym < 2))
    post: _
    """
    raw = (ta, ma, sa, fa, tb, mb, sb, fb, bsym)
    ops = ["get_intersection", "get_difference"] + (["and", "sub"] if chx.thorough() else [])
    return _binary("c03_boolean", raw, ops, ta, ma, sa, fa, tb, mb, sb, fb, bsym, False)


def c03_rational(ta: T6, ma: int, sa: int, fa: int, tb: T6, mb: int, sb: int, fb: int, bsym: int) -> bool:
    """
    pre: pinned(ma=ma, mb=mb, sa=sa, fa=fa, sb=sb, fb=fb, bsym=bsym)
    pre: ((0 <= ma) & (ma <= 2)) & ((0 <= mb) & (mb <= 2)) & ((0 <= sa) & (sa < 4)) & ((0 <= fa) & (fa < 4)) & ((0 <= sb) & (sb < 4)) & ((0 <= fb) & (fb < 4))
    pre: enc.sparse_ranges(ta, 2, 1)
    pre: enc.sparse_ranges(tb, 2, 1)
    pre: sparse_canonical(ta, ma) & sparse_canonical(tb, mb) & ((0 <= bsym) & (bsym < 2))
    post: _
    """
    raw = (ta, ma, sa, fa, tb, mb, sb, fb, bsym)
    return _binary("c03_rational", raw, ["union", "concatenate"], ta, ma, sa, fa, tb, mb, sb, fb, bsym, False)


def c03_self(ta: T9, ma: int, sa: int, fa: int) -> bool:
    """
    pre: pinned(ma=ma, sa=sa, fa=fa)
    pre: ((0 <= ma) & (ma <= 3)) & ((0 <= sa) & (sa < 4)) & ((0 <= fa) & (fa < 4))
    pre: enc.sparse_ranges(ta, 2, 1)
    pre: sparse_canonical(ta, ma)
    post: _
    """
    raw = (ta, ma, sa, fa)
    ops = ["get_intersection", "get_difference", "union", "concatenate"]
    ea = enc.decode_enfa_sparse(ta, ma, 2, 1)
    sta = enc.mask_members(sa, 2)
    fia = enc.mask_members(fa, 2)
    chx.enter("c03_self", raw)
    A = enc.build_enfa(EpsilonNFA, 2, ea, sta, fia)
    obs = [(op, chx.guarded(getattr(A, op), A)) for op in ops]
    return chx.judge("C03", "c03_self", raw, ((ea, sta, fia), ([], [], [], ["a"]), True), obs,
                     _binary_oracle, realize_obs=False)


# three-state operands: (edges (q, sym 0=eps 1=a 2=b, t), starts, finals)
SHAPES3 = [
    ([(0, 1, 1), (1, 2, 2), (2, 1, 1)], [0], [1]),            # a (b a)*   : final state on a cycle through another state
    ([(0, 1, 1), (1, 2, 2), (2, 2, 1)], [0], [1, 2]),
    ([(0, 1, 1), (1, 1, 2), (2, 1, 0)], [0], [0]),            # (aaa)*
    ([(0, 1, 1), (0, 2, 2), (1, 2, 1), (2, 1, 2)], [0], [1, 2]),
    ([(0, 0, 1), (1, 1, 2), (2, 2, 1)], [0], [2]),            # eps then a (b a)*
    ([(0, 1, 1), (1, 2, 2), (2, 1, 1), (1, 1, 1)], [0], [1]),  # loop + cycle
    ([(0, 1, 2), (1, 2, 2), (2, 1, 1)], [0, 1], [2]),         # two start states
    ([(0, 1, 1), (1, 2, 0), (1, 1, 2), (2, 2, 2)], [0], [2]),
]
SECOND3 = [([(0, 1, 1)], [0], [1]), ([(0, 2, 0)], [0], [0]), ([(0, 1, 1), (1, 2, 0)], [0], [0, 1])]


def _shapes_oracle(args, obs):
    shape, second = args
    ea, sa, fa = SHAPES3[shape]
    eb, sb, fb = SECOND3[second]
    ra = enc.ref_enfa(3, ea, sa, fa)
    rb = enc.ref_enfa(2, eb, sb, fb)
    tags = operand_tags(ra, "a_") + ["three_state_operand"]
    wants = {"kleene_star": lambda: O.star(ra), "get_complement": lambda: O.complement(ra),
             "reverse": lambda: O.reverse(ra), "union": lambda: O.union(ra, rb),
             "concatenate": lambda: O.concat(ra, rb), "concatenate_rev": lambda: O.concat(rb, ra),
             "get_intersection": lambda: O.combine([ra, rb], lambda x, y: x and y),
             "get_difference": lambda: O.combine([ra, rb], lambda x, y: x and not y)}
    fails = []
    for op, res in obs:
        compare(op, res, wants[op](), tags, fails)
    return True, fails, {"a": ra.describe(), "b": rb.describe()}


def c03_shapes(shape: int, second: int) -> bool:
    """
    pre: pinned(shape=shape)
    pre: ((0 <= shape) & (shape < 8)) & ((0 <= second) & (second < 3))
    post: _
    """
    raw = (shape, second)
    sh = enc.pick(shape, len(SHAPES3))
    se = enc.pick(second, len(SECOND3))
    ea, sa, fa = SHAPES3[sh]
    eb, sb, fb = SECOND3[se]
    chx.enter("c03_shapes", raw)
    A = enc.build_enfa(EpsilonNFA, 3, ea, sa, fa)
    B = enc.build_enfa(EpsilonNFA, 2, eb, sb, fb)
    obs = [("kleene_star", chx.guarded(A.kleene_star)), ("get_complement", chx.guarded(A.get_complement)),
           ("reverse", chx.guarded(A.reverse)), ("union", chx.guarded(A.union, B)),
           ("concatenate", chx.guarded(A.concatenate, B)), ("concatenate_rev", chx.guarded(B.concatenate, A)),
           ("get_intersection", chx.guarded(A.get_intersection, B)),
           ("get_difference", chx.guarded(A.get_difference, B))]
    return chx.judge("C03", "c03_shapes", raw, (sh, se), obs, _shapes_oracle, realize_obs=False)


# ----------------------------------------------------------------------------------------
# an operand that has already been used in operations, is then edited, and is used again

EDITS = ["add_start_state", "remove_start_state", "add_final_state", "remove_final_state", "add_transition",
         "remove_transition", "add_epsilon_transition"]
REUSE_OPS = ["union", "concatenate", "kleene_star", "get_intersection", "get_difference", "get_complement", "reverse"]


def _reuse_oracle(args, obs):
    kind, edges, starts, finals, edit, x, y = args
    A, B = obs["operand"], obs["second"]
    ra = O.extract(A)            # the operand as it is after the edit, read through its public observation points
    rb = O.extract(B)
    tags = ["operand_reused_after_" + EDITS[edit], "class_" + CLASS_NAMES[kind]]
    wants = {"union": lambda: O.union(ra, rb), "concatenate": lambda: O.concat(ra, rb),
             "kleene_star": lambda: O.star(ra),
             "get_intersection": lambda: O.combine([ra, rb], lambda u, v: u and v),
             "get_difference": lambda: O.combine([ra, rb], lambda u, v: u and not v),
             "get_complement": lambda: O.complement(ra), "reverse": lambda: O.reverse(ra)}
    fails = []
    for op, res in obs["results"]:
        compare(op, res, wants[op](), tags, fails)
    before = enc.ref_enfa(2, edges, starts, finals)
    changed = not O.equivalent(before, ra)[0]
    return bool(edges) and changed, fails, {"before": before.describe(), "after": ra.describe(),
                                            "edit": [EDITS[edit], x, y], "cls": CLASS_NAMES[kind],
                                            "edit_result": obs["edit_result"]}


def c03_reuse(kind: int, bits: B8, starts: int, finals: int, edit: int, x: int, y: int) -> bool:
    """
    pre: pinned(kind=kind, starts=starts, finals=finals, edit=edit, b0=bits[0], b1=bits[1])
    pre: ((0 <= kind) & (kind < 3)) & ((0 <= starts) & (starts < 4)) & ((0 <= finals) & (finals < 4)) & ((0 <= edit) & (edit < 7)) & ((0 <= x) & (x < 2)) & ((0 <= y) & (y < 2))
    post: _
    """
    raw = (kind, bits, starts, finals, edit, x, y)
    edges = enc.decode_enfa_dense(bits, 2, 1)
    st = enc.mask_members(starts, 2)
    fi = enc.mask_members(finals, 2)
    kd = enc.pick(kind, 3)
    ed = enc.pick(edit, 7)
    xx, yy = enc.pick(x, 2), enc.pick(y, 2)
    if not kind_ok(kd, edges, st) or (kd == 2 and len(st) > 1):
        return chx.assumed_away("c03_reuse")
    chx.enter("c03_reuse", raw)
    A = enc.build_enfa(CLASSES[kd], 2, edges, st, fi)
    B = enc.build_enfa(EpsilonNFA, 2, [(0, 1, 1)], [0], [1])

    def run():
        out = []
        for op in REUSE_OPS:
            if op in ("kleene_star", "get_complement", "reverse"):
                out.append((op, chx.guarded(getattr(A, op))))
            else:
                out.append((op, chx.guarded(getattr(A, op), B)))
        return out
    run()                                    # first use: whatever the library remembers is now in place
    name = EDITS[ed]
    if name in ("add_transition", "remove_transition"):
        er = chx.guarded(getattr(A, name), xx, "a", yy)
    elif name == "add_epsilon_transition":
        er = chx.guarded(A.add_transition, xx, "epsilon", yy)
    else:
        er = chx.guarded(getattr(A, name), xx)
    obs = {"operand": A, "second": B, "results": run(),
           "edit_result": "ok" if er[0] == "ok" else "%s" % (er[1],)}
    return chx.judge("C03", "c03_reuse", raw, (kd, edges, st, fi, ed, xx, yy), obs, _reuse_oracle,
                     realize_obs=False)


def _sh_unary(tier):
    if tier == "quick":
        return product_pins(k=[1, 2], m=[0, 1, 2], starts=[0, 1, 3], finals=[1, 2, 3])
    return product_pins(k=[1, 2], m=[0, 1, 2, 3], starts=[0, 1, 2, 3], finals=[0, 1, 2, 3])


def _sh_boolean(tier):
    if tier == "quick":
        return product_pins(ma=[1, 2], mb=[0, 1], sa=[1, 3], fa=[2], sb=[1], fb=[1, 2], bsym=[0, 1])
    return product_pins(ma=[1, 2], mb=[0, 1, 2], sa=[1, 3], fa=[2, 3], sb=[1], fb=[1, 2], bsym=[0, 1])


def _sh_rational(tier):
    if tier == "quick":
        return product_pins(ma=[1], mb=[0, 1], sa=[1, 3], fa=[2], sb=[1], fb=[1, 2], bsym=[0, 1])
    return product_pins(ma=[1, 2], mb=[0, 1], sa=[1, 3], fa=[2], sb=[1], fb=[1, 2], bsym=[0, 1])


def _sh_self(tier):
    if tier == "quick":
        return product_pins(ma=[1, 2], sa=[1, 3], fa=[1, 2])
    return product_pins(ma=[0, 1, 2, 3], sa=[0, 1, 2, 3], fa=[1, 2, 3])


def _sh_reuse(tier):
    if tier == "quick":
        return product_pins(kind=[0], starts=[1], finals=[2], edit=list(range(7)), b0=[False], b1=[False, True]) + \
            product_pins(kind=[1, 2], starts=[1], finals=[2, 3], edit=list(range(6)), b0=[False], b1=[False])
    # each path runs 14 operations built on to_regex: the thorough list adds only the second start mask
    return product_pins(kind=[0], starts=[1, 3], finals=[2], edit=list(range(7)), b0=[False], b1=[False, True]) + \
        product_pins(kind=[1, 2], starts=[1], finals=[2, 3], edit=list(range(6)), b0=[False], b1=[False])


FUNCS = ["EpsilonNFA.get_complement", "EpsilonNFA.__neg__", "EpsilonNFA.reverse", "EpsilonNFA.__invert__",
         "EpsilonNFA.get_intersection", "EpsilonNFA.__and__", "EpsilonNFA.get_difference", "EpsilonNFA.__sub__",
         "Regexable.union", "Regexable.concatenate", "Regexable.kleene_star", "EpsilonNFA.to_regex",
         "Regex.to_epsilon_nfa", "combine_state_pair"]
RULE = "every operand has an edge, a start and a final state"

CONDS = [
    Cond("C03", c03_unary, _sh_unary,
         {"quick": "eps-NFA, 2 states, alphabet {a} or {a,b}, <=2 distinct edges (eps allowed), start mask in "
                   "{none,{0},{0,1}}, non-empty final mask: get_complement, reverse, kleene_star",
          "thorough": "<=3 edges, all masks; also -A and ~A"},
         FUNCS, RULE),
    Cond("C03", c03_boolean, _sh_boolean,
         {"quick": "ordered pairs A (1-2 edges over {a}, eps allowed, starts {0} or {0,1}, final {1}) x B (0-1 edges "
                   "over {a} or {b}, start {0}, final {0} or {1}), same state names: get_intersection, get_difference",
          "thorough": "A 1-2 edges (finals {1}/{0,1}), B <=2 edges; also & and -"},
         FUNCS, RULE),
    Cond("C03", c03_rational, _sh_rational,
         {"quick": "ordered pairs A (1 edge) x B (0-1 edges), as above: union, concatenate",
          "thorough": "A 1-2 edges x B 0-1 edges"},
         FUNCS, RULE),
    Cond("C03", c03_shapes, lambda tier: product_pins(shape=list(range(8))),
         {"quick": "8 hand-picked three-state operands (final state on a cycle through another state, eps, two start "
                   "states, loops) x 3 second operands: all unary and binary operations", "thorough": "same"},
         FUNCS, RULE),
    Cond("C03", c03_self, _sh_self,
         {"quick": "A op A (same object) for A with 1-2 edges over {a}: intersection, difference, union, concatenate",
          "thorough": "A with <=3 edges, all start masks"},
         FUNCS, RULE),
    Cond("C03", c03_reuse, _sh_reuse,
         {"quick": "operand A (eps-NFA / NFA / DFA, 2 states over {a}, start {0}, final {1} or {0,1}) is used in all seven "
                   "operations, edited once through the public API (add/remove start or final state, add/remove a "
                   "transition, add an eps transition; symbolic arguments) and used again: the second results are "
                   "judged against the operand as it then is (read through states/start_states/final_states/iteration)",
          "thorough": "eps-NFA also with starts {0,1}"},
         FUNCS + ["FiniteAutomaton.add_start_state", "DeterministicFiniteAutomaton.add_start_state",
                  "FiniteAutomaton.remove_start_state", "FiniteAutomaton.add_final_state",
                  "FiniteAutomaton.add_transition", "FiniteAutomaton.remove_transition"],
         "operand has an edge and the edit changes its language"),
]
