"""C14 — LL(1): FIRST / FOLLOW are the textbook sets, is_llone_parsable() = LL(1), and for LL(1)
grammars get_llone_parse_tree(w) gives a tree iff w is a member, NotParsableException otherwise.

Representation used by the library (llone_parser.py, tests/test_llone_parser.py), mapped by
vlib/oracles/ll1.py: FIRST maps CFGObjects to sets of Terminal with `Epsilon()` for the empty word;
FOLLOW maps CFGObjects to sets of Terminal with the plain string "$" for end of input. Only the
entries of the grammar's variables are compared (the tests never look at the terminals' entries).
"""
from typing import Tuple

from vlib import chx, enc
from vlib.chx import pinned
from vlib.oracles import cfg as OC
from vlib.oracles import ll1 as OL
from vlib.registry import Cond, product_pins

from pyformlang.cfg.llone_parser import LLOneParser
from pyformlang.cfg.parse_tree import ParseTree

chx.warm_networkx()   # parse_tree.py imports networkx

T12 = Tuple[int, int, int, int, int, int, int, int, int, int, int, int]
T16 = Tuple[int, int, int, int, int, int, int, int, int, int, int, int, int, int, int, int]
T15 = Tuple[int, int, int, int, int, int, int, int, int, int, int, int, int, int, int]
W3 = Tuple[int, int, int]

WORD_TABLE = ["a", "b", "z"]      # z: a symbol the grammar does not know (thorough tier only)
MODES = 7                         # 0: productions as a set; 1..6: as a list in permutation mode-1


def nsym():
    """Word alphabet of the tier: {a, b} (quick), {a, b, z} (thorough)."""
    return 3 if chx.thorough() else 2


# The two bound predicates below are written with `&` and `|` instead of `and` / `or` / `if`: on symbolic
# operands these build ONE solver formula without forking, so that the whole precondition costs a single
# decision and every later fork (the table decoding in the body) is pruned by z3 against it. With
# `and`/`or` every conjunct forks and CrossHair spends 3-10x as many paths on rejected prefixes (measured).
# On concrete ints (native replay, census) they are ordinary bool arithmetic.

def word_ok(w, wlen, n):
    """Bound of the word: length in range, used positions index the alphabet, unused positions are
    zero; the unknown symbol z (index 2) only as the last symbol (the parser stops at it anyway)."""
    r = (0 <= wlen) & (wlen <= len(w))
    for i in range(len(w)):
        r = r & (0 <= w[i]) & (w[i] < n) & ((i < wlen) | (w[i] == 0)) & ((i >= wlen - 1) | (w[i] < 2))
    return r


def _lex_less(x, y):
    res = False
    for i in range(len(x) - 1, -1, -1):
        res = (x[i] < y[i]) | ((x[i] == y[i]) & res)
    return res


def family(t, p, v, nt, b):
    """Bound of the grammar: the same predicate as `1 <= p <= maxp and t[0] == 0 and
    enc.cfg_canonical(t, p, v, nt, b)` (the first production has head S; compared with that form on
    random and on all family tuples by the native census), in the fork-free style explained above."""
    stride = enc.cfg_stride(b)
    maxp = len(t) // stride
    r = (1 <= p) & (p <= maxp) & (t[0] == 0)
    for i in range(maxp):
        base = i * stride
        r = r & (0 <= t[base]) & (t[base] < v) & (0 <= t[base + 1]) & (t[base + 1] <= b)
        for j in range(b):
            x = t[base + 2 + j]
            r = r & (0 <= x) & (x < v + nt) & ((j < t[base + 1]) | (x == 0))
        r = r & ((i < p) | ((t[base] == 0) & (t[base + 1] == 0)))
        if i + 1 < maxp:
            r = r & ((i + 1 >= p) | _lex_less(t[base:base + stride], t[base + stride:base + 2 * stride]))
    return r


def _valid(prods, v):
    """The property's validity predicate: no useless symbol (in particular S has a production)."""
    with chx.NT():
        g = enc.ref_cfg(prods, v)
        return not OC.useless_symbols_present(g)


def _ll1(prods, v):
    with chx.NT():
        return OC.is_ll1(enc.ref_cfg(prods, v))


def _build(prods, v, mode):
    """mode 0: productions handed over as a set (the documented type; CrossHair's set model iterates
    in insertion order, natively the order follows the hash seed); mode 1..6: as a list whose first
    three productions are permuted by permutation number mode-1 (replays exactly)."""
    if mode == 0:
        return enc.build_cfg(prods, v)
    return enc.build_cfg(prods, v, order=enc.PERMS[3][mode - 1], as_list=True)


def _note(g, **more):
    d = g.describe()
    d["classes"] = OL.shape_tags(g)
    d.update(more)
    return d


# ----------------------------------------------------------------------------------------
# FIRST / FOLLOW / is_llone_parsable

def _sets_oracle(args, obs):
    prods, v, mode = args
    g = enc.ref_cfg(prods, v)
    first = OC.first_sets(g)
    follow = OC.follow_sets(g, first)
    fails = []
    for op, want, end_marker in (("get_first_set", first, False), ("get_follow_set", follow, True)):
        res = obs[op]
        if res[0] == "exc":
            fails.append(chx.exc_failure(op, res))
            continue
        got = OL.read_sets(res[1], g.variables, end_marker)
        for name in sorted(g.variables):
            symbols, problems = got[name]
            if problems:
                fails.append({"kind": "shape", "op": op, "detail": "%s: %s" % (name, "; ".join(problems))})
            elif symbols != want[name]:
                fails.append({"kind": "sets", "op": op,
                              "detail": "%s(%s) = %r, textbook %r" % (
                                  "FIRST" if op == "get_first_set" else "FOLLOW", name,
                                  OL.show(symbols), OL.show(want[name]))})
    res = obs["is_llone_parsable"]
    want = OC.is_ll1(g)
    if res[0] == "exc":
        fails.append(chx.exc_failure("is_llone_parsable", res))
    elif res[1] != want:
        fails.append({"kind": "verdict", "op": "is_llone_parsable", "tags": OL.verdict_tags(g),
                      "what": "accepted_non_ll1" if res[1] else "rejected_ll1",
                      "detail": "is_llone_parsable() is %r, the grammar is%s LL(1); conflicts at %r" % (
                          res[1], "" if want else " not", OL.conflicts(OL.predict_table(g)))})
    return True, fails, _note(g, mode=mode, ll1=want)


def _sets_common(cond, raw, prods, v, mode):
    if not _valid(prods, v):
        return chx.assumed_away(cond)
    chx.enter(cond, raw)
    parser = LLOneParser(_build(prods, v, mode))
    obs = {}
    obs["get_first_set"] = chx.guarded(parser.get_first_set)
    obs["get_follow_set"] = chx.guarded(parser.get_follow_set)
    res = chx.guarded(parser.is_llone_parsable)
    if res[0] == "ok":          # only the truth value is demanded
        res = ("ok", True if res[1] else False)
    obs["is_llone_parsable"] = res
    return chx.judge("C14", cond, raw, (prods, v, mode), obs, _sets_oracle, realize_obs=False)


def c14_sets(t: T12, p: int, mode: int) -> bool:
    """
    pre: pinned(p=p, mode=mode, l0=t[1], a0=t[2], b0=t[3], h1=t[4], l1=t[5], a1=t[6], b1=t[7], h2=t[8], l2=t[9], a2=t[10], b2=t[11])
    pre: 0 <= mode < 7
    pre: family(t, p, 2, 2, 2)
    post: _
    """
    prods = enc.decode_cfg(t, p, 2, 2, 2)
    md = enc.pick(mode, MODES)
    return _sets_common("c14_sets", (t, p, mode), prods, 2, md)


def c14_sets_v3(t: T16, p: int, mode: int) -> bool:
    """
    pre: pinned(p=p, mode=mode, l0=t[1], a0=t[2], b0=t[3], h1=t[4], l1=t[5], a1=t[6], b1=t[7], h2=t[8], l2=t[9], a2=t[10], b2=t[11], h3=t[12], l3=t[13], a3=t[14], b3=t[15])
    pre: 0 <= mode < 7
    pre: family(t, p, 3, 2, 2)
    post: _
    """
    prods = enc.decode_cfg(t, p, 3, 2, 2)
    md = enc.pick(mode, MODES)
    return _sets_common("c14_sets_v3", (t, p, mode), prods, 3, md)


def c14_sets_b3(t: T15, p: int, mode: int) -> bool:
    """
    pre: pinned(p=p, mode=mode, l0=t[1], a0=t[2], b0=t[3], c0=t[4], h1=t[5], l1=t[6], a1=t[7], b1=t[8], c1=t[9], h2=t[10], l2=t[11], a2=t[12], b2=t[13], c2=t[14])
    pre: 0 <= mode < 7
    pre: family(t, p, 2, 2, 3)
    post: _
    """
    prods = enc.decode_cfg(t, p, 2, 2, 3)
    md = enc.pick(mode, MODES)
    return _sets_common("c14_sets_b3", (t, p, mode), prods, 2, md)


# ----------------------------------------------------------------------------------------
# get_llone_parse_tree

def _parse_oracle(args, obs):
    prods, v, mode, word = args
    g = enc.ref_cfg(prods, v)
    member = tuple(word) in OC.words_upto(g, len(word))
    outcome, steps = OL.ll1_run(g, word)
    if (outcome == "accept") != member:   # two independent references disagree: harness error
        raise AssertionError("reference LL(1) automaton says %r, reference language says member=%r"
                             % (outcome, member))
    fails = []
    res = obs
    if res[0] == "ok":
        if not isinstance(res[1], ParseTree):
            fails.append({"kind": "shape", "op": "get_llone_parse_tree",
                          "detail": "returned %r, not a ParseTree" % (res[1],)})
        elif not member:
            fails.append({"kind": "verdict", "op": "get_llone_parse_tree", "what": "nonmember_accepted",
                          "tags": OL.run_tags(g, steps) + ["reference_" + outcome],
                          "detail": "a tree was returned for the non-member %r" % (word,)})
    elif res[1] == "NotParsableException":
        if member:
            fails.append({"kind": "verdict", "op": "get_llone_parse_tree", "what": "member_refused",
                          "tags": OL.run_tags(g, steps),
                          "detail": "NotParsableException for the member %r" % (word,)})
    else:
        tags = OL.run_tags(g, steps) + ["member" if member else "nonmember", "reference_" + outcome]
        fails.append(chx.exc_failure("get_llone_parse_tree", res, tags=tags, word=list(word)))
    return True, fails, _note(g, mode=mode, word=list(word), member=member, reference=outcome)


def _parse_common(cond, raw, prods, v, mode, w, wlen):
    if not _valid(prods, v) or not _ll1(prods, v):
        return chx.assumed_away(cond)     # before the word is decoded: one path for all words
    word = enc.decode_word(w, wlen, WORD_TABLE)
    chx.enter(cond, raw)
    parser = LLOneParser(_build(prods, v, mode))
    res = chx.guarded(parser.get_llone_parse_tree, word)
    return chx.judge("C14", cond, raw, (prods, v, mode, word), res, _parse_oracle, realize_obs=False)


def c14_parse(t: T12, p: int, mode: int, w: W3, wlen: int) -> bool:
    """
    pre: pinned(p=p, mode=mode, l0=t[1], a0=t[2], b0=t[3], h1=t[4], l1=t[5], a1=t[6], b1=t[7], h2=t[8], l2=t[9], a2=t[10], b2=t[11], wlen=wlen, w0=w[0], w1=w[1], w2=w[2])
    pre: 0 <= mode < 7
    pre: word_ok(w, wlen, nsym())
    pre: family(t, p, 2, 2, 2)
    post: _
    """
    prods = enc.decode_cfg(t, p, 2, 2, 2)
    md = enc.pick(mode, MODES)
    return _parse_common("c14_parse", (t, p, mode, w, wlen), prods, 2, md, w, wlen)


def c14_parse_v3(t: T16, p: int, mode: int, w: W3, wlen: int) -> bool:
    """
    pre: pinned(p=p, mode=mode, l0=t[1], a0=t[2], b0=t[3], h1=t[4], l1=t[5], a1=t[6], b1=t[7], h2=t[8], l2=t[9], a2=t[10], b2=t[11], h3=t[12], l3=t[13], a3=t[14], b3=t[15], wlen=wlen, w0=w[0], w1=w[1], w2=w[2])
    pre: 0 <= mode < 7
    pre: word_ok(w, wlen, nsym())
    pre: family(t, p, 3, 2, 2)
    post: _
    """
    prods = enc.decode_cfg(t, p, 3, 2, 2)
    md = enc.pick(mode, MODES)
    return _parse_common("c14_parse_v3", (t, p, mode, w, wlen), prods, 3, md, w, wlen)


def c14_parse_b3(t: T15, p: int, mode: int, w: W3, wlen: int) -> bool:
    """
    pre: pinned(p=p, mode=mode, l0=t[1], a0=t[2], b0=t[3], c0=t[4], h1=t[5], l1=t[6], a1=t[7], b1=t[8], c1=t[9], h2=t[10], l2=t[11], a2=t[12], b2=t[13], c2=t[14], wlen=wlen, w0=w[0], w1=w[1], w2=w[2])
    pre: 0 <= mode < 7
    pre: word_ok(w, wlen, nsym())
    pre: family(t, p, 2, 2, 3)
    post: _
    """
    prods = enc.decode_cfg(t, p, 2, 2, 3)
    md = enc.pick(mode, MODES)
    return _parse_common("c14_parse_b3", (t, p, mode, w, wlen), prods, 2, md, w, wlen)


# ----------------------------------------------------------------------------------------
# shards (sized with a native census of the families; pins name tuple positions: production i is
# (h_i, l_i, a_i, b_i[, c_i]) = head, body length, body symbols; codes: variables S=0, A=1[, B=2], then
# the terminals a, b)

def _pins(common, **ranges):
    return [dict(common, **d) for d in product_pins(**ranges)]


# sub-families of the 3-variable / 4-production family (heads pinned)
V3_CONFLICT = dict(p=4, l0=1, a0=1, h1=0, h2=1, l2=0, h3=1)      # S -> A | ?,  A -> eps | ?
V3_CHAIN = dict(p=4, l0=2, a0=1, h1=1, l1=1, h2=2, l2=0, h3=2)   # S -> A ?,  A -> ?,  B -> eps | ?
# sub-families with bodies of length 3
B3_SEQ = dict(p=3, l0=3, h1=1, l1=0, h2=1, l2=1)                  # S -> ? ? ?,  A -> eps | ?
B3_REC = dict(p=3, l0=0, h1=0, l1=3, h2=1, l2=1)                  # S -> eps | ? ? ?,  A -> ?
# word classes used to split heavy parse shards (pins are equalities)
WSPLIT = [dict(wlen=0), dict(wlen=1), dict(wlen=2), dict(wlen=3, w0=0), dict(wlen=3, w0=1)]
ALL4 = [0, 1, 2, 3]


def _shards_sets(tier):
    sh = [dict(p=1, mode=0)] + _pins(dict(p=2, mode=0), l0=[0, 1]) + _pins(dict(p=2, mode=0, l0=2), a0=ALL4)
    if tier == "quick":
        sh += [dict(p=3, mode=0, l0=0, h1=0, l1=1)] + _pins(dict(p=3, mode=0, l0=0, h1=0, l1=2), a1=ALL4)
        sh += [dict(p=3, mode=0, l0=1, a0=1, h1=0, l1=1)] + _pins(dict(p=3, mode=0, l0=1, a0=1, h1=0, l1=2), a1=ALL4)
        sh += _pins(dict(p=3, l0=1, a0=1, h1=1), mode=[0, 6], l1=[0, 1, 2])
        # production orders matter to the work-list of FIRST: the left-recursive shapes [S -> A, S -> S x, A -> ..]
        # and [S -> S x, S -> A .., ..] are also handed over as lists in other orders
        sh += _pins(dict(p=3, l0=1, a0=1, h1=0, l1=2, a1=0), mode=[3, 4, 6])
        sh += _pins(dict(p=3, l0=2, a0=0, h1=0, l1=2, a1=1), mode=[0, 1, 5])
        return sh
    for mode in (0, 3, 6):
        sh += _pins(dict(p=3, mode=mode, l0=0), h1=[0, 1])
        sh += _pins(dict(p=3, mode=mode, l0=1), a0=ALL4, h1=[0, 1])
        sh += _pins(dict(p=3, mode=mode, l0=2), a0=ALL4, h1=[0, 1])
    return sh


def _shards_sets_v3(tier):
    if tier == "quick":
        return [dict(V3_CONFLICT, mode=0, l1=1)] + _pins(dict(V3_CONFLICT, mode=0, l1=2, a1=3), l3=[1, 2]) \
            + [dict(V3_CHAIN, mode=0, l3=1)]
    return _pins(dict(V3_CONFLICT, l1=1), mode=[0, 6]) + _pins(dict(V3_CONFLICT, l1=2), mode=[0, 6], a1=[0, 1, 2, 3, 4]) \
        + _pins(dict(V3_CHAIN), mode=[0, 6], l3=[1, 2])


def _shards_sets_b3(tier):
    if tier == "quick":
        return _pins(dict(B3_SEQ, mode=0), a0=[1, 2]) + [dict(B3_REC, mode=0, a1=1)]
    return _pins(dict(B3_SEQ), mode=[0, 6], a0=ALL4) + _pins(dict(B3_REC), mode=[0, 6], a1=ALL4)


def _shards_parse(tier):
    sh = [dict(p=1, mode=0)] + _pins(dict(p=2, mode=0), l0=[0, 1])
    if tier == "quick":
        # first production S -> x y: x = A (then only a second production with head A gives LL(1) grammars) or
        # x = a (x = b is symmetric, x = S never LL(1))
        sh += _pins(dict(p=2, mode=0, l0=2, a0=1, h1=1), l1=[0, 1, 2]) + _pins(dict(p=2, mode=0, l0=2, a0=2), h1=[0, 1])
        # p = 3, smallest production S -> A
        sh += [dict(p=3, mode=0, l0=1, a0=1, h1=0, l1=1, a1=2), dict(p=3, mode=0, l0=1, a0=1, h1=0, l1=2, a1=1)]
        sh += _pins(dict(p=3, mode=0, l0=1, a0=1, h1=0, l1=2, a1=2, h2=1), l2=[0, 1, 2])
        sh += _pins(dict(p=3, mode=0, l0=1, a0=1, h1=1), l1=[0, 1, 2])
        return sh
    sh += _pins(dict(p=2, mode=0, l0=2), a0=ALL4)
    for g in _pins(dict(p=3, mode=0, l0=0), h1=[0, 1]) + _pins(dict(p=3, mode=0, l0=1), a0=ALL4, h1=[0, 1]) \
            + _pins(dict(p=3, mode=0, l0=2), a0=ALL4, h1=[0, 1]):
        heavy = (g["l0"] == 2 and g["a0"] != 0) or (g["l0"] == 0 and g["h1"] == 0) or \
            (g["l0"] == 1 and g["a0"] == 1 and g["h1"] == 0)
        sh += [dict(g, **ws) for ws in WSPLIT] if heavy else [g]
    return sh


def _shards_parse_v3(tier):
    if tier == "quick":
        return _pins(dict(V3_CHAIN, mode=0, l3=1), a1=[2, 3])      # A -> B | a
    return [dict(V3_CHAIN, mode=0, l3=1)] + [dict(V3_CHAIN, mode=0, l3=2, **ws) for ws in WSPLIT]


def _shards_parse_b3(tier):
    if tier == "quick":
        return [dict(B3_SEQ, mode=0, a0=1), dict(B3_REC, mode=0, a1=1, b1=0)]      # S -> A ? ? ; S -> eps | A S ?
    return _pins(dict(B3_SEQ, mode=0), a0=[1, 2, 3]) + _pins(dict(B3_REC, mode=0), a1=[1, 2, 3])


FUNCS = ["LLOneParser.get_first_set", "LLOneParser.get_follow_set", "LLOneParser.get_llone_parsing_table",
         "LLOneParser.is_llone_parsable", "LLOneParser.get_llone_parse_tree",
         "LLOneParser._get_first_set_production", "LLOneParser._initialize_first_set",
         "LLOneParser._get_triggers", "LLOneParser._initialize_follow_set",
         "LLOneParser._get_triggers_follow_set", "SetQueue.append", "SetQueue.pop",
         "CFG.get_nullable_symbols", "ParseTree.__init__"]
RULE = "every judged grammar is non-trivial: no useless symbol, S has a production (c14_parse*: and LL(1))"
ASSUME = ["C14: the production order seen by the parser is explored as the insertion order of CrossHair's set "
          "model (mode 0) and as explicit list orders (mode 6 = first three productions reversed), not as the "
          "hash-seed-dependent order of a native set",
          "C14: grammars are CFG(p,v,t,b) tuples in canonical (sorted, duplicate-free) form whose first production "
          "has head S; grammars with a useless symbol are assumed away (oracle predicate), for c14_parse* also "
          "the grammars that are not LL(1) according to the oracle"]
TIMEOUT = {"quick": 1500, "thorough": 7200}

BASE = "CFG(p productions, variables {S,A}, terminals {a,b}, bodies of length <=2)"
V3 = ("CFG(4 productions, variables {S,A,B}, terminals {a,b}, bodies of length <=2) restricted to the shapes "
      "[S -> A | any, A -> eps | any] and [S -> A x, A -> x, B -> eps | any] (x any symbol)")
B3 = ("CFG(3 productions, variables {S,A}, terminals {a,b}, bodies of length <=3) of the shapes "
      "[S -> x y z, A -> eps | x] and [S -> eps | x y z, A -> x] (x, y, z any symbols)")
WQ = " x all words of length <=3 over {a,b}"
WT = " x all words of length <=3 over {a,b} and all words u.z with |u| <=2 over {a,b}, z unknown to the grammar"

# (order: small conditions first - the runner profiles the executed library functions on the first 60 samples)
CONDS = [
    Cond("C14", c14_parse_v3, _shards_parse_v3,
         {"quick": "LL(1) grammars of the shape [S -> A x, A -> B | a, B -> eps | x] over variables {S,A,B}, terminals "
                   "{a,b} (x any symbol)" + WQ,
          "thorough": "LL(1) grammars of the shape [S -> A x, A -> x, B -> eps | any body of length <=2] over variables "
                      "{S,A,B}, terminals {a,b}" + WT},
         FUNCS, RULE, assumptions=ASSUME, shard_timeout=TIMEOUT),
    Cond("C14", c14_parse_b3, _shards_parse_b3,
         {"quick": "LL(1) grammars of the shapes [S -> A y z, A -> eps | x] and [S -> eps | A S z, A -> x] over variables "
                   "{S,A}, terminals {a,b}" + WQ,
          "thorough": "LL(1) grammars " + B3 + " whose body of length 3 does not start with S" + WT},
         FUNCS, RULE, assumptions=ASSUME, shard_timeout=TIMEOUT),
    Cond("C14", c14_sets_b3, _shards_sets_b3,
         {"quick": B3 + ": first shape with x = A or a, second shape with x = A; as a set",
          "thorough": B3 + "; as a set and as a reversed list"},
         FUNCS, RULE, assumptions=ASSUME, shard_timeout=TIMEOUT),
    Cond("C14", c14_sets_v3, _shards_sets_v3,
         {"quick": V3 + ": second S-production a single symbol or a x (x any), last B-production of length 1; as a set",
          "thorough": V3 + "; as a set and with the first three productions reversed in a list"},
         FUNCS, RULE, assumptions=ASSUME, shard_timeout=TIMEOUT),
    Cond("C14", c14_parse, _shards_parse,
         {"quick": BASE + ": the LL(1) ones with p<=2 (left out: smallest production S -> S x or S -> A x with a second "
                   "S-production - never LL(1) - and S -> b x, symmetric to S -> a x) and those with p=3 of the shapes "
                   "[S -> A, S -> a, any], [S -> A, S -> A x, any], [S -> A, S -> a x, A -> any], [S -> A, A -> any, A -> any]"
                   + WQ,
          "thorough": BASE + ": all LL(1) ones with p<=3" + WT},
         FUNCS, RULE, assumptions=ASSUME, shard_timeout=TIMEOUT),
    Cond("C14", c14_sets, _shards_sets,
         {"quick": BASE + ": all with p<=2; of p=3 those whose smallest production is S -> eps followed by another "
                   "S-production, or S -> A; productions handed over as a set (for [S -> A, two A-productions] "
                   "also as a reversed list)",
          "thorough": BASE + ": all with p<=3, productions handed over as a set and (p=3) as a reversed list"},
         FUNCS, RULE, assumptions=ASSUME, shard_timeout=TIMEOUT),
]
