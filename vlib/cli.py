"""vf — command line. Runs under the system python3 or any python; re-executes workers in /verif/.venv."""
import argparse
import os
import sys

sys.path.insert(0, os.path.dirname(os.path.dirname(os.path.abspath(__file__))))


def main():
    ap = argparse.ArgumentParser(prog="vf")
    sub = ap.add_subparsers(dest="cmd", required=True)
    c = sub.add_parser("check")
    c.add_argument("prop")
    c.add_argument("--tier", default=os.environ.get("VERIF_TIER", "quick"), choices=["quick", "thorough"])
    c.add_argument("--jobs", type=int, default=int(os.environ.get("VF_JOBS", "16")))
    c.add_argument("--only", action="append")
    r = sub.add_parser("replay")
    r.add_argument("path")
    sub.add_parser("ensure-env")
    sub.add_parser("selfcheck")
    a = ap.parse_args()
    from vlib import runner
    if a.cmd == "ensure-env":
        runner.ensure_env()
        return 0
    if a.cmd in ("check", "replay", "selfcheck"):
        runner.ensure_env()
        # re-exec inside the overlay venv so that pyformlang (/repo) and crosshair are importable
        if not os.environ.get("VF_INNER"):
            env = dict(os.environ, VF_INNER="1", PYTHONPATH=runner.VERIF + os.pathsep + runner.REPO,
                       PYTHONDONTWRITEBYTECODE="1")
            os.execve(runner.PY, [runner.PY, "-m", "vlib.cli"] + sys.argv[1:], env)
    if a.cmd == "check":
        return runner.check(a.prop, a.tier, jobs=a.jobs, only=a.only)
    if a.cmd == "replay":
        from vlib import replay
        return replay.main([a.path])
    if a.cmd == "selfcheck":
        from vlib import selfcheck
        return selfcheck.main()


if __name__ == "__main__":
    sys.exit(main())
