"""One shard = one CrossHair analysis of one harness function. Usage:
   python -m vlib.worker <prop> <cond> <out.json>      (env: VF_TIER, VF_PIN, VF_COND_TIMEOUT)
"""
import json
import os
import sys
import time


def main():
    prop, cname, out = sys.argv[1:4]
    t0 = time.time()
    # the symbolic interpreter adds frames of its own: code that recurses ~100 deep natively (the union of all
    # printable characters behind '.' in PythonRegex) would hit the default limit only under tracing
    sys.setrecursionlimit(12000)
    import threading
    threading.stack_size(256 * 1024 * 1024)
    th = threading.Thread(target=_main, args=(prop, cname, out, t0))
    th.start()
    th.join()


def _main(prop, cname, out, t0):
    from vlib import chx, registry
    cond = registry.find(prop, cname)
    chx.configure_crosshair()
    import crosshair.statespace as ss
    from crosshair.core_and_libs import analyze_function, run_checkables, MessageType
    from crosshair.options import AnalysisOptionSet, AnalysisKind

    paths = {"n": 0}
    orig_init = ss.StateSpace.__init__

    def counting_init(self, *a, **kw):
        paths["n"] += 1
        return orig_init(self, *a, **kw)

    ss.StateSpace.__init__ = counting_init

    cond_timeout = float(os.environ.get("VF_COND_TIMEOUT", "300"))
    opts = AnalysisOptionSet(
        analysis_kind=[AnalysisKind.PEP316],
        per_condition_timeout=cond_timeout,
        per_path_timeout=float(cond.per_path_timeout),
        report_all=True,
    )
    chx.CHAN.reset()
    checkables = analyze_function(cond.fn, opts)
    result = {"prop": prop, "cond": cname, "pin": chx.PIN, "tier": chx.TIER}
    if not checkables:
        result.update(status="HARNESS_ERROR", messages=[{"state": "no_conditions", "message":
                      "CrossHair found no contract on the harness"}])
    else:
        messages = run_checkables(checkables)
        states = [m.state for m in messages]
        msgs = [{"state": m.state.name, "message": m.message[:1500], "line": m.line,
                 "traceback": (m.traceback or "")[-1200:]} for m in messages]
        if any(s in (MessageType.POST_FAIL, MessageType.POST_ERR, MessageType.EXEC_ERR) for s in states):
            status = "REFUTED"
        elif any(s in (MessageType.SYNTAX_ERR, MessageType.IMPORT_ERR) for s in states):
            status = "HARNESS_ERROR"
        elif any(s == MessageType.PRE_UNSAT for s in states):
            status = "PRE_UNSAT"
        elif states and all(s == MessageType.CONFIRMED for s in states):
            status = "CONFIRMED"
        else:
            status = "INCONCLUSIVE"
        result.update(status=status, messages=msgs)
    with chx.NT():
        if chx.CHAN.pending is not None:
            chx.CHAN.abandoned.append(chx.CHAN.pending)
            chx.CHAN.pending = None
    result.update(chan=chx.CHAN.dump(), paths=paths["n"], z3=chx.Z3STATS,
                  wall_s=round(time.time() - t0, 2),
                  hashseed=os.environ.get("PYTHONHASHSEED"))
    tmp = out + ".tmp"
    with open(tmp, "w") as f:
        json.dump(result, f)
    os.replace(tmp, out)


if __name__ == "__main__":
    main()
