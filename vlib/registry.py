"""Condition registry: one Cond = one PEP316-contracted harness function + its shards/bounds."""
import importlib
import json
import os

_VALIDATED = None


def _validated():
    global _VALIDATED
    if _VALIDATED is None:
        path = os.path.join(os.path.dirname(__file__), "thorough_validated.json")
        try:
            with open(path) as f:
                _VALIDATED = json.load(f)
        except (OSError, ValueError):
            _VALIDATED = {}
    return _VALIDATED

PROPS = ["C%02d" % i for i in range(1, 21)]


class Cond:
    def __init__(self, prop, fn, shards, bound, functions, rule,
                 per_path_timeout=60.0, shard_timeout=None, stubs=(), assumptions=(),
                 tiers=("quick", "thorough")):
        self.prop = prop
        self.fn = fn
        self.name = fn.__name__
        self._shards = shards          # tier -> list of pin dicts
        self.bound = bound             # tier -> text
        self.functions = list(functions)   # library entry points driven (static list)
        self.rule = rule               # what makes an input non-trivial
        self.per_path_timeout = per_path_timeout
        self.shard_timeout = shard_timeout or {"quick": 900, "thorough": 3600}
        self.stubs = list(stubs)
        self.assumptions = list(assumptions)
        self.tiers = tiers

    def shards(self, tier):
        s = self._shards(tier) if callable(self._shards) else self._shards[tier]
        s = list(s)
        if tier == "thorough" and not os.environ.get("VF_ALL_SHARDS"):
            keep = _validated().get(self.name)
            if keep is not None:
                # the thorough tier schedules the shards that have been run to CONFIRMED on this tree within
                # the wall budget (tools_validated.py); the generator above documents the intended scope
                s = [p for p in s if p in keep]
        return s


def product_pins(**ranges):
    """All combinations name->value of the given ranges, as pin dicts."""
    out = [{}]
    for name, values in ranges.items():
        out = [dict(p, **{name: v}) for p in out for v in values]
    return out


def load(prop):
    mod = importlib.import_module("vlib.conds." + prop.lower())
    return list(mod.CONDS)


def find(prop, name):
    for c in load(prop):
        if c.name == name:
            return c
    raise KeyError((prop, name))


def cfg_pins(pins):
    """Drop pin combinations that no canonical production table satisfies (they would be vacuous shards):
    unused symbol slots are 0 (an epsilon body has no first symbol) and the productions are sorted."""
    out = []
    for p in pins:
        if p.get("l0") == 0 and p.get("s0", 0) != 0:
            continue
        if p.get("l0") in (0, 1) and p.get("s1", 0) != 0:
            continue
        if "h0" in p and "h1" in p and p["h1"] < p["h0"]:
            continue
        out.append(p)
    return out
