"""vf selfcheck: push the repository's own test fixtures through the oracles (DESIGN 2.4)."""
import importlib
import sys

MODULES = ["vlib.oracles.selfcheck_core", "vlib.oracles.fst", "vlib.oracles.ig", "vlib.oracles.fs", "vlib.oracles.ll1",
           "vlib.oracles.selfcheck_trees"]


def _needs_args(fn):
    import inspect
    try:
        return any(p.default is p.empty and p.kind in (p.POSITIONAL_ONLY, p.POSITIONAL_OR_KEYWORD)
                   for p in inspect.signature(fn).parameters.values())
    except (TypeError, ValueError):
        return True


def main():
    bad = 0
    for name in MODULES:
        try:
            mod = importlib.import_module(name)
        except ImportError:
            continue
        for fn_name in sorted(dir(mod)):
            fn = getattr(mod, fn_name)
            if fn_name.startswith("check_") and callable(fn) and not _needs_args(fn):
                try:
                    fn()
                    print("[selfcheck] ok   %s.%s" % (name, fn_name))
                except Exception as exc:  # noqa
                    bad += 1
                    print("[selfcheck] FAIL %s.%s: %r" % (name, fn_name, exc))
    return 2 if bad else 0


if __name__ == "__main__":
    sys.exit(main())
