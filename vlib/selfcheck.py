"""vf selfcheck: push the repository's own test fixtures through the oracles (DESIGN 2.4)."""
import importlib
import sys

MODULES = ["vlib.oracles.selfcheck_core"]


def main():
    bad = 0
    for name in MODULES:
        try:
            mod = importlib.import_module(name)
        except ImportError:
            continue
        for fn_name in sorted(dir(mod)):
            if fn_name.startswith("check_"):
                try:
                    getattr(mod, fn_name)()
                    print("[selfcheck] ok   %s.%s" % (name, fn_name))
                except Exception as exc:  # noqa
                    bad += 1
                    print("[selfcheck] FAIL %s.%s: %r" % (name, fn_name, exc))
    return 2 if bad else 0


if __name__ == "__main__":
    sys.exit(main())
