"""Native replay (plain CPython, no CrossHair tracing) of recorded inputs against /repo.

   python -m vlib.replay <file.json>            exit 1 + VIOLATION line if the failure reproduces,
                                                exit 0 if the harness passes, 2 on a harness error
   python -m vlib.replay --batch <in.json> <out.json>   (used by the runner: many raw inputs,
                                                optional profiling of the executed library functions)
"""
import json
import os
import sys


def totuple(x):
    if isinstance(x, list):
        return tuple(totuple(y) for y in x)
    return x


def run_one(prop, cond_name, raw):
    from vlib import chx, registry
    cond = registry.find(prop, cond_name)
    chx.CHAN.reset()
    ok = cond.fn(*totuple(raw))
    return bool(ok), chx.CHAN.dump()


def main(argv):
    if argv and argv[0] == "--batch":
        return batch(argv[1], argv[2])
    path = argv[0]
    with open(path) as f:
        rec = json.load(f)
    try:
        ok, chan = run_one(rec["property"], rec["cond"], rec["raw"])
    except Exception as exc:  # noqa
        import traceback
        traceback.print_exc()
        print("HARNESS-ERROR replay crashed: %r" % (exc,))
        return 2
    if chan["errors"]:
        print("HARNESS-ERROR", json.dumps(chan["errors"])[:2000])
        return 2
    if ok:
        if chan["knowns"]:
            print("KNOWN-FINDING-ONLY", json.dumps(chan["knowns"])[:2000])
        else:
            print("NOT-REPRODUCED: the harness passes natively on this input")
        return 0
    print(json.dumps(chan["fails"], indent=1)[:6000])
    print("VIOLATION property=%s replay=%s" % (rec["property"], os.path.abspath(path)))
    return 1


def batch(inp, out):
    with open(inp) as f:
        job = json.load(f)
    executed = set()
    if job.get("profile"):
        marker = os.sep + "pyformlang" + os.sep

        def prof(frame, event, arg):
            if event == "call":
                fn = frame.f_code.co_filename
                if marker in fn and "/tests/" not in fn:
                    executed.add(fn.split(marker, 1)[1] + ":" + frame.f_code.co_qualname)
        sys.setprofile(prof)
    results = []
    for item in job["items"]:
        try:
            ok, chan = run_one(item["property"], item["cond"], item["raw"])
            results.append({"ok": ok, "fails": chan["fails"], "knowns": chan["knowns"],
                            "errors": chan["errors"]})
        except Exception as exc:  # noqa
            import traceback
            results.append({"ok": None, "crash": repr(exc), "traceback": traceback.format_exc()[-1500:]})
        # incremental write: a hang in the next item must not lose what is done
        with open(out + ".tmp", "w") as f:
            json.dump({"results": results, "executed": sorted(executed)}, f)
        os.replace(out + ".tmp", out)
    sys.setprofile(None)
    with open(out + ".tmp", "w") as f:
        json.dump({"results": results, "executed": sorted(executed), "done": True}, f)
    os.replace(out + ".tmp", out)
    return 0


if __name__ == "__main__":
    sys.exit(main(sys.argv[1:]))
