"""vf check: shard, solve in parallel, classify, replay, write evidence. See DESIGN.md 2.1."""
import concurrent.futures as cf
import hashlib
import json
import os
import shutil
import subprocess
import sys
import time

from vlib import registry

VERIF = os.path.dirname(os.path.dirname(os.path.abspath(__file__)))
REPO = os.environ.get("VF_REPO", "/repo")
VENV = os.path.join(VERIF, ".venv")
PY = os.path.join(VENV, "bin", "python")
EXPLANATION = (
    "Bounded symbolic execution of pyformlang's real code with CrossHair 0.0.110 on z3: the harness "
    "inputs are symbolic ints/bools/strs; every path condition is decided by z3; 'exhaustive' means "
    "every shard ended with CrossHair's 'Confirmed over all paths', i.e. the solver certified that the "
    "explored paths cover the whole precondition (the stated bound). Results are compared with an "
    "independent reference semantics (vlib/oracles). Nothing is claimed outside the bound.")


def ensure_env(verbose=True):
    """Overlay venv on /venv with crosshair-tool from the offline wheelhouse (idempotent)."""
    import fcntl
    os.makedirs(os.path.join(VERIF, "build"), exist_ok=True)
    lock = open(os.path.join(VERIF, "build", ".envlock"), "w")
    fcntl.flock(lock, fcntl.LOCK_EX)
    try:
        probe = [PY, "-c", "import crosshair, z3, pyformlang, networkx"]
        if os.path.exists(PY) and subprocess.run(probe, capture_output=True).returncode == 0:
            return
        if verbose:
            print("[vf] building %s (offline)" % VENV, flush=True)
        shutil.rmtree(VENV, ignore_errors=True)
        subprocess.check_call(["/venv/bin/python", "-m", "venv", VENV])
        sp = subprocess.check_output([PY, "-c", "import site;print(site.getsitepackages()[0])"],
                                     text=True).strip()
        with open(os.path.join(sp, "_overlay.pth"), "w") as f:
            f.write("import site; site.addsitedir('/venv/lib/python3.12/site-packages')\n")
        env = dict(os.environ, PIP_NO_INDEX="1")
        subprocess.check_call([os.path.join(VENV, "bin", "pip"), "install", "-q", "--no-index",
                               "--find-links", "/opt/veriftools/wheels", "crosshair-tool"], env=env)
        subprocess.check_call(probe)
    finally:
        fcntl.flock(lock, fcntl.LOCK_UN)
        lock.close()


def _env(tier, pin, seed, extra=None):
    env = dict(os.environ)
    env.update(VF_TIER=tier, VF_PIN=json.dumps(pin), PYTHONHASHSEED=str(seed),
               PYTHONPATH=VERIF + os.pathsep + REPO, PYTHONDONTWRITEBYTECODE="1")
    if extra:
        env.update(extra)
    return env


def _skipped(task, why):
    return {"status": "SKIPPED", "messages": [{"state": "SKIPPED", "message": why}],
            "chan": {"counts": {}, "distinct": [], "samples": [], "fails": [], "knowns": {}, "abandoned": [],
                     "errors": []}, "paths": 0, "z3": {"queries": 0, "seconds": 0.0, "unknown": 0},
            "task": {k: task[k] for k in ("cond", "pin", "seed")}, "wall_s": 0.0}


def run_shard(task):
    out = task["out"]
    if os.path.exists(out):
        os.remove(out)
    limit = task["timeout"]
    if task.get("deadline"):
        left = task["deadline"] - time.time()
        if left < 20:
            return _skipped(task, "wall budget of the run exhausted before this shard started")
        limit = min(limit, left + 30)
    env = _env(task["tier"], task["pin"], task["seed"],
               {"VF_COND_TIMEOUT": str(int(limit * 0.85))})
    t0 = time.time()
    cmd = ["timeout", "-k", "5", str(int(limit)), PY, "-m", "vlib.worker", task["prop"], task["cond"], out]
    p = subprocess.run(cmd, env=env, cwd=VERIF, capture_output=True, text=True)
    wall = time.time() - t0
    if os.path.exists(out):
        with open(out) as f:
            res = json.load(f)
    else:
        status = "TIMEOUT" if p.returncode in (124, 137) else "CRASH"
        res = {"status": status, "messages": [{"state": status, "message": (p.stderr or "")[-1500:]}],
               "chan": {"counts": {}, "distinct": [], "samples": [], "fails": [], "knowns": {},
                        "abandoned": [], "errors": []}, "paths": 0, "z3": {"queries": 0, "seconds": 0.0,
                                                                          "unknown": 0}}
    res["task"] = {k: task[k] for k in ("cond", "pin", "seed")}
    res["wall_s"] = round(wall, 2)
    return res


def native_batch(items, tier, seed, timeout, profile=False, tag="b"):
    """Run raw inputs natively (subprocess, hard time limit). Returns (results, executed, finished)."""
    bdir = os.path.join(VERIF, "build", "batch")
    os.makedirs(bdir, exist_ok=True)
    key = hashlib.sha1((tag + json.dumps(items, sort_keys=True) + str(seed)).encode()).hexdigest()[:12]
    inp = os.path.join(bdir, key + ".in.json")
    out = os.path.join(bdir, key + ".out.json")
    with open(inp, "w") as f:
        json.dump({"items": items, "profile": profile}, f)
    if os.path.exists(out):
        os.remove(out)
    cmd = ["timeout", "-k", "5", str(int(timeout)), PY, "-m", "vlib.replay", "--batch", inp, out]
    subprocess.run(cmd, env=_env(tier, {}, seed), cwd=VERIF, capture_output=True, text=True)
    if not os.path.exists(out):
        return [], [], False
    with open(out) as f:
        d = json.load(f)
    return d["results"], d.get("executed", []), bool(d.get("done"))


def check(prop, tier, jobs=16, only=None, seed=None, verbose=True):
    t_start = time.time()
    seed = int(os.environ.get("VERIF_SEED", "0")) if seed is None else seed
    hseed = seed % 1000003
    ensure_env(verbose)
    if not os.environ.get("VF_NO_SELFCHECK"):
        # oracle validation against the repository's own test fixtures (DESIGN 2.4), ~2 s
        sc = subprocess.run([PY, "-m", "vlib.selfcheck"], env=_env(tier, {}, hseed), cwd=VERIF,
                            capture_output=True, text=True)
        if sc.returncode != 0:
            print(sc.stdout[-3000:])
            print("[vf] HARNESS-ERROR oracle self-check failed (an oracle disagrees with a fixture of the "
                  "repository's own tests)")
            return 2
    conds = [c for c in registry.load(prop) if tier in c.tiers and (only is None or c.name in only)]
    bdir = os.path.join(VERIF, "build", prop, tier)
    shutil.rmtree(bdir, ignore_errors=True)
    os.makedirs(bdir, exist_ok=True)
    # wall budget of the whole run: shards that cannot start in time are reported as SKIPPED (= not explored,
    # listed as inconclusive), so that a tier always ends in bounded time. Shards are interleaved across the
    # conditions so that every condition gets its share of the budget.
    budget = float(os.environ.get("VF_MAX_WALL", "1000" if tier == "thorough" else "1200"))
    deadline = t_start + budget
    tasks = []
    for c in conds:
        for i, pin in enumerate(c.shards(tier)):
            tasks.append({"prop": prop, "cond": c.name, "pin": pin, "tier": tier, "deadline": deadline, "rank": i,
                          "seed": hseed + (i % 3 if tier == "thorough" else 0),
                          "timeout": c.shard_timeout[tier],
                          "out": os.path.join(bdir, "%s__s%03d.json" % (c.name, i))})
    counts = {}
    for t in tasks:
        counts[t["cond"]] = counts.get(t["cond"], 0) + 1
    # interleave the conditions; inside a condition, shards with fewer pinned inputs (= larger ones) go first
    for c in conds:
        own = [t for t in tasks if t["cond"] == c.name]
        own.sort(key=lambda t: (len(t["pin"]), t["rank"]))
        for i, t in enumerate(own):
            t["rank"] = i
    tasks.sort(key=lambda t: (t["rank"] / float(counts[t["cond"]]), t["cond"]))
    if verbose:
        print("[vf] %s %s: %d conditions, %d shards, %d workers" % (prop, tier, len(conds), len(tasks), jobs),
              flush=True)
    results = []
    with cf.ThreadPoolExecutor(max_workers=jobs) as ex:
        for n, res in enumerate(ex.map(run_shard, tasks)):
            results.append(res)
    return finish(prop, tier, conds, results, seed, hseed, t_start, verbose)


def load_known():
    from vlib import chx
    return chx.known_findings()


def finish(prop, tier, conds, results, seed, hseed, t_start, verbose):
    harness_errors = []
    violations = []
    inconclusive = []
    per_cond = {}
    all_samples = []
    distinct = set()
    knowns = {}
    counts_total = {"enter": 0, "reached": 0, "nontrivial": 0, "assumed_away": 0, "known": 0, "fail": 0}
    z3q = 0
    z3s = 0.0
    paths = 0
    fails = []
    abandoned = []
    for r in results:
        cname = r["task"]["cond"]
        pc = per_cond.setdefault(cname, {"shards": 0, "confirmed": 0, "refuted": 0, "inconclusive": 0,
                                         "paths": 0, "reached": 0, "nontrivial": 0, "assumed_away": 0,
                                         "z3_queries": 0, "z3_seconds": 0.0, "cpu_wall_s": 0.0,
                                         "inconclusive_shards": []})
        pc["shards"] += 1
        st = r["status"]
        if st != "SKIPPED":
            pc["ran"] = pc.get("ran", 0) + 1
        ch = r["chan"]
        cnt = ch["counts"]
        for k in counts_total:
            counts_total[k] += cnt.get(k, 0)
        pc["paths"] += r.get("paths", 0)
        pc["reached"] += cnt.get("reached", 0)
        pc["nontrivial"] += cnt.get("nontrivial", 0)
        pc["assumed_away"] += cnt.get("assumed_away", 0)
        pc["z3_queries"] += r["z3"]["queries"]
        pc["z3_seconds"] += r["z3"]["seconds"]
        pc["cpu_wall_s"] += r.get("wall_s", 0)
        z3q += r["z3"]["queries"]
        z3s += r["z3"]["seconds"]
        paths += r.get("paths", 0)
        distinct.update(cname + ":" + d for d in ch["distinct"])
        all_samples.extend(ch["samples"][:2])
        for fid, ex in ch["knowns"].items():
            knowns.setdefault(fid, ex)
        for e in ch["errors"]:
            harness_errors.append("oracle error in %s: %s" % (cname, e.get("error")))
        if st == "CONFIRMED":
            pc["confirmed"] += 1
        elif st == "REFUTED":
            pc["refuted"] += 1
            if ch["fails"]:
                for f in ch["fails"]:
                    fails.append(dict(f, pin=r["task"]["pin"], seed=r["task"]["seed"]))
            else:
                # refuted without a judge record: an exception escaped the harness itself
                harness_errors.append("shard %s %s refuted outside the judge: %s" % (
                    cname, r["task"]["pin"], json.dumps(r["messages"])[:1500]))
        elif st in ("HARNESS_ERROR", "CRASH"):
            harness_errors.append("shard %s %s: %s %s" % (cname, r["task"]["pin"], st,
                                                           json.dumps(r["messages"])[:1500]))
        elif st == "PRE_UNSAT":
            harness_errors.append("shard %s %s: precondition never met (vacuous shard)" % (
                cname, r["task"]["pin"]))
        else:
            pc["inconclusive"] += 1
            pc["inconclusive_shards"].append({"pin": r["task"]["pin"], "status": st,
                                              "messages": [m["message"][:200] for m in r["messages"]][:2]})
            inconclusive.append((cname, r["task"]["pin"], st))
        for a in ch["abandoned"]:
            if a.get("raw") is not None:
                abandoned.append(dict(a, seed=r["task"]["seed"]))

    # vacuity guard per condition
    for c in conds:
        pc = per_cond.get(c.name)
        if pc is None or (pc["reached"] == 0 and pc.get("ran", 0) > 0 and pc.get("ran", 0) > pc["inconclusive"]):
            harness_errors.append("condition %s never reached its judge (vacuous)" % c.name)

    # ---- replay every counterexample natively
    rdir = os.path.join(VERIF, "build", "replays", prop)
    os.makedirs(rdir, exist_ok=True)
    seen = set()
    replayed_per_cond = {}
    not_replayed = 0
    for f in fails:
        key = hashlib.sha1(json.dumps([f["cond"], f["raw"]], sort_keys=True).encode()).hexdigest()[:12]
        if key in seen:
            continue
        seen.add(key)
        if f.get("harness_error"):
            continue
        # every shard stops at its first counterexample; with a broken library that can be one per shard. Three
        # per condition are replayed and reported, the others are only counted.
        if replayed_per_cond.get(f["cond"], 0) >= 3:
            not_replayed += 1
            continue
        replayed_per_cond[f["cond"]] = replayed_per_cond.get(f["cond"], 0) + 1
        path = os.path.join(rdir, "%s_%s.json" % (f["cond"], key))
        rec = {"property": prop, "cond": f["cond"], "raw": f["raw"], "failures": f["failures"],
               "input": f.get("input"), "hashseed": f["seed"], "tier": tier,
               "replay_cmd": "./vf replay %s" % path}
        with open(path, "w") as fh:
            json.dump(rec, fh, indent=1)
        reproduced = False
        for s in [f["seed"]] + [x for x in range(0, 8) if x != f["seed"]]:
            res, _, done = native_batch([{"property": prop, "cond": f["cond"], "raw": f["raw"]}],
                                        tier, s, 120, tag="replay")
            if res and res[0].get("ok") is False and not res[0].get("errors"):
                reproduced = True
                rec["hashseed"] = s
                rec["native_failures"] = res[0]["fails"]
                with open(path, "w") as fh:
                    json.dump(rec, fh, indent=1)
                break
            if not done and not res:
                # native hang on a counterexample: also a reproduction of a failure (hang)
                pass
        if reproduced:
            violations.append((path, f))
        else:
            harness_errors.append("counterexample of %s does not replay natively: raw=%s failures=%s" % (
                f["cond"], json.dumps(f["raw"]), json.dumps(f["failures"])[:600]))

    # ---- paths that never came back: native replay under a 20 s limit (non-termination)
    seen_ab = set()
    for a in abandoned[:40]:
        key = json.dumps([a["cond"], a["raw"]], sort_keys=True)
        if key in seen_ab:
            continue
        seen_ab.add(key)
        res, _, done = native_batch([{"property": prop, "cond": a["cond"], "raw": a["raw"]}],
                                    tier, a["seed"], 20, tag="hang")
        if not res and not done:
            path = os.path.join(rdir, "%s_hang_%s.json" % (a["cond"], hashlib.sha1(key.encode()).hexdigest()[:12]))
            with open(path, "w") as fh:
                json.dump({"property": prop, "cond": a["cond"], "raw": a["raw"], "hashseed": a["seed"],
                           "failures": [{"kind": "hang", "detail": "no answer natively within 20 s"}]}, fh, indent=1)
            violations.append((path, {"cond": a["cond"], "raw": a["raw"],
                                      "failures": [{"kind": "hang"}]}))
        elif res and res[0].get("ok") is False:
            path = os.path.join(rdir, "%s_late_%s.json" % (a["cond"], hashlib.sha1(key.encode()).hexdigest()[:12]))
            with open(path, "w") as fh:
                json.dump({"property": prop, "cond": a["cond"], "raw": a["raw"], "hashseed": a["seed"],
                           "failures": res[0]["fails"]}, fh, indent=1)
            violations.append((path, {"cond": a["cond"], "raw": a["raw"], "failures": res[0]["fails"]}))

    # ---- executed library functions: native profile of the samples
    by_cond = {}
    for smp in all_samples:
        by_cond.setdefault(smp["cond"], []).append(smp)
    rr = []
    for i in range(12):
        for lst in by_cond.values():
            if i < len(lst):
                rr.append(lst[i])
    prof_items = [{"property": prop, "cond": s["cond"], "raw": s["raw"]} for s in rr[:60]]
    executed = []
    if prof_items:
        _, executed, _ = native_batch(prof_items, tier, hseed, 180, profile=True, tag="prof")

    # ---- known findings
    kf = load_known()
    known_lines = []
    for fnd in kf.get("findings", []):
        if fnd.get("property") != prop:
            continue
        seen_now = fnd["id"] in knowns
        ex = fnd.get("example")
        if ex and not seen_now:
            # the entry's own example, replayed natively: does the finding still exist on this tree?
            res, _, _ = native_batch([{"property": prop, "cond": ex["cond"], "raw": ex["raw"]}], tier, hseed, 120,
                                     tag="kf")
            if res and res[0].get("ok") and fnd["id"] in (res[0].get("knowns") or {}):
                seen_now = True
            elif res and res[0].get("ok"):
                known_lines.append("[vf] note: the example of known finding %s no longer fails on this tree "
                                   "(stale entry; it suppresses nothing)" % fnd["id"])
                continue
        known_lines.append("KNOWN-FINDING: property=%s %s — %s%s" % (
            prop, fnd["id"], fnd["description"],
            "" if seen_now else " [not met inside this run's bound]"))

    # the thorough tier schedules the validated shards of each generator (registry.Cond.shards); the evidence
    # states how much of the generator's scope that is, and a run is exhaustive only for a complete scope
    full_counts = {}
    prev = os.environ.get("VF_ALL_SHARDS")
    os.environ["VF_ALL_SHARDS"] = "1"
    try:
        for c in conds:
            full_counts[c.name] = len(c.shards(tier))
    finally:
        if prev is None:
            del os.environ["VF_ALL_SHARDS"]
        else:
            os.environ["VF_ALL_SHARDS"] = prev
    for c in conds:
        if c.name in per_cond:
            per_cond[c.name]["shards_of_stated_scope"] = full_counts[c.name]
    exhaustive = all(pc["confirmed"] == pc["shards"] == pc.get("shards_of_stated_scope", pc["shards"])
                     for pc in per_cond.values()) and not harness_errors and bool(per_cond)
    wall = round(time.time() - t_start, 2)
    evidence = {
        "property_id": prop, "tier": tier, "seed": seed, "level": "other",
        "coverage": {
            "explanation": EXPLANATION,
            "evaluations": counts_total["reached"],
            "distinct_nontrivial": len(distinct),
            "rule": "; ".join(sorted({"%s: %s" % (c.name, c.rule) for c in conds})),
            "samples": rr[:12] if rr else all_samples[:12],
            "exhaustive": exhaustive,
            "paths_explored": paths,
            "assumed_away_paths": counts_total["assumed_away"],
            "solver": {"engine": "crosshair-tool 0.0.110 / z3 (z3-solver wheel)", "queries": z3q,
                       "solver_seconds": round(z3s, 2)},
            "conditions": [{
                "name": c.name,
                "bound": (c.bound.get(tier) or "") + (
                    "" if per_cond.get(c.name, {}).get("shards", 0) == full_counts.get(c.name)
                    else " [this run scheduled %d of the %d shards that make up this scope]" % (
                        per_cond.get(c.name, {}).get("shards", 0), full_counts.get(c.name, 0))),
                "functions_driven": c.functions,
                "stubs": c.stubs,
                **{k: (round(v, 2) if isinstance(v, float) else v)
                   for k, v in per_cond.get(c.name, {}).items()}} for c in conds],
            "functions_executed": executed,
            "known_findings_met": sorted(knowns),
            "inconclusive_shards": len(inconclusive),
            "harness_errors": harness_errors[:10],
            "hash_seeds": sorted({r["task"]["seed"] for r in results}),
        },
        "assumptions": sorted(set(sum([c.assumptions for c in conds], [])) | {
            "CrossHair's symbolic interpreter models CPython faithfully (every counterexample is replayed natively before it is reported)",
            "CrossHair ParallelNode alternatives pinned to the fully interpreted branch (DESIGN 2.5.1)",
            "PYTHONHASHSEED-induced iteration orders of string-keyed sets are sampled (the run's seeds), not decided",
            "the reference semantics in vlib/oracles is correct (validated against the repository's own test fixtures by `vf selfcheck`)",
        }),
        "wall_s": wall,
        "violations": len(violations),
    }
    # evidence describes /repo; a run against another tree (VF_REPO: mutant testing) must not overwrite it
    evdir = os.path.join(VERIF, "evidence") if REPO == "/repo" else os.path.join(VERIF, "build", "evidence_other")
    os.makedirs(evdir, exist_ok=True)
    with open(os.path.join(evdir, prop + ".json"), "w") as f:
        json.dump(evidence, f, indent=1)

    if verbose:
        for c in conds:
            pc = per_cond.get(c.name, {})
            print("[vf]  %-28s shards %3d  confirmed %3d  refuted %d  inconclusive %d  paths %6d  judged %6d  "
                  "z3 %6d q / %.1fs" % (c.name, pc.get("shards", 0), pc.get("confirmed", 0), pc.get("refuted", 0),
                                        pc.get("inconclusive", 0), pc.get("paths", 0), pc.get("reached", 0),
                                        pc.get("z3_queries", 0), pc.get("z3_seconds", 0.0)))
        for (cname, pin, st) in inconclusive[:20]:
            print("[vf]  INCONCLUSIVE %s %s (%s)" % (cname, json.dumps(pin), st))
    for line in known_lines:
        print(line)
    print("[vf] %s %s: %s, %d paths, %d judged, %d distinct non-trivial, z3 %d queries %.1fs, wall %.0fs" % (
        prop, tier, "exhaustive within bound" if exhaustive else "NOT exhaustive", paths,
        counts_total["reached"], len(distinct), z3q, z3s, wall), flush=True)
    if not_replayed and verbose:
        print("[vf] %d further counterexamples (other shards) were not replayed" % not_replayed)
    if violations:
        for path, f in violations:
            print("[vf] counterexample %s raw=%s: %s" % (f["cond"], json.dumps(f["raw"]),
                                                          json.dumps(f["failures"])[:800]))
            print("VIOLATION property=%s replay=%s" % (prop, path))
        return 1
    if harness_errors:
        for h in harness_errors[:10]:
            print("[vf] HARNESS-ERROR " + h)
        return 2
    return 0
