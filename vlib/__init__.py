"""Solver-based checking of pyformlang (CrossHair / z3). See /verif/DESIGN.md."""
