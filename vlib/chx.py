"""CrossHair glue shared by every harness: realisation helpers, the side channel,
the judge (oracle call + known-finding matching), shard pinning, CrossHair configuration.

Everything here degrades to plain Python when no CrossHair tracing is active, so the very
same harness function is what `vf replay` calls natively.
"""
import collections
import hashlib
import json
import os
import sys
import time

try:  # CrossHair is optional: replay runs without it being active
    from crosshair.core import deep_realize as _ch_deep_realize
    from crosshair.tracers import NoTracing as _ch_NoTracing, is_tracing as _ch_is_tracing
    from crosshair.util import NotDeterministic as _NotDeterministic
    HAVE_CH = True
except Exception:  # pragma: no cover
    HAVE_CH = False

    class _NotDeterministic(Exception):
        pass

VERIF_DIR = os.path.dirname(os.path.dirname(os.path.abspath(__file__)))
REPO_DIR = os.environ.get("VF_REPO", "/repo")


# ----------------------------------------------------------------------------------------
# tracing helpers

def tracing():
    return HAVE_CH and _ch_is_tracing()


class _Null:
    def __enter__(self):
        return self

    def __exit__(self, *a):
        return False


def NT():
    """`with NT():` = run natively (no symbolic interpretation)."""
    if tracing():
        return _ch_NoTracing()
    return _Null()


def R(value):
    """Deep-realise a (possibly symbolic) plain structure. Realising a symbolic value makes the
    solver pick a model value and records the complementary branch in the search tree, so it
    enumerates, it does not sample."""
    if tracing():
        return _ch_deep_realize(value)
    return value


# ----------------------------------------------------------------------------------------
# shard configuration (set by the worker through the environment)

TIER = os.environ.get("VF_TIER", "quick")
try:
    PIN = json.loads(os.environ.get("VF_PIN", "{}"))
except Exception:  # pragma: no cover
    PIN = {}


def thorough():
    return TIER == "thorough"


def pinned(**kw):
    """Precondition helper: `pre: pinned(a=a, b=t[0])` constrains the named symbolic inputs to the
    values the shard pins (names the shard does not pin are unconstrained)."""
    ok = True
    for name, value in kw.items():
        if name in PIN:
            ok = ok & (value == PIN[name])      # & (not `and`): one solver term, no forking
    return ok


# ----------------------------------------------------------------------------------------
# side channel

class Channel:
    def __init__(self):
        self.reset()

    def reset(self):
        self.counts = collections.Counter()
        self.distinct = set()
        self.samples = []
        self.fails = []
        self.knowns = {}
        self.pending = None
        self.abandoned = []
        self.errors = []

    def dump(self):
        return {
            "counts": dict(self.counts),
            "distinct": sorted(self.distinct),
            "samples": self.samples,
            "fails": self.fails,
            "knowns": self.knowns,
            "abandoned": self.abandoned,
            "errors": self.errors,
        }


CHAN = Channel()
MAX_SAMPLES = int(os.environ.get("VF_MAX_SAMPLES", "3"))
_KNOWN = None


def known_findings():
    """known_findings.json (the committed file) + known_findings.d/*.json (same format, merged)."""
    global _KNOWN
    if _KNOWN is None:
        import glob
        merged = {"findings": [], "fixed": []}
        paths = [os.path.join(VERIF_DIR, "known_findings.json")]
        paths += sorted(glob.glob(os.path.join(VERIF_DIR, "known_findings.d", "*.json")))
        for path in paths:
            try:
                with open(path) as f:
                    d = json.load(f)
            except FileNotFoundError:
                continue
            merged["findings"] += d.get("findings", [])
            merged["fixed"] += d.get("fixed", [])
        _KNOWN = merged
    return _KNOWN


def match_known(prop, cond, failure):
    """A failure {kind, op, exc, site, tags, ...} matches a finding when every key of the finding's
    `match` agrees (tags_all: all listed tags present). Returns the finding id or None."""
    for fnd in known_findings().get("findings", []):
        if fnd.get("property") != prop:
            continue
        m = fnd.get("match", {})
        ok = True
        for k, v in m.items():
            if k == "tags_all":
                if not set(v) <= set(failure.get("tags", [])):
                    ok = False
            elif k == "cond":
                if cond not in (v if isinstance(v, list) else [v]):
                    ok = False
            elif isinstance(v, list):
                if failure.get(k) not in v:
                    ok = False
            elif failure.get(k) != v:
                ok = False
            if not ok:
                break
        if ok:
            return fnd["id"]
    return None


def _digest(obj):
    return hashlib.sha1(json.dumps(obj, sort_keys=True, default=repr).encode()).hexdigest()[:16]


def jsonable(x):
    if isinstance(x, (str, int, float, bool)) or x is None:
        return x
    if isinstance(x, (list, tuple)):
        return [jsonable(y) for y in x]
    if isinstance(x, (set, frozenset)):
        return sorted((jsonable(y) for y in x), key=repr)
    if isinstance(x, dict):
        return {str(k): jsonable(v) for k, v in x.items()}
    return repr(x)


def enter(cond, raw, realize=True):
    """Called after decoding, before the library runs. `raw` = the harness function's own argument
    tuple; when every argument is already determined by the decoding (realize=True) it is recorded
    so that a path which never comes back (time-out) can be replayed natively (DESIGN 2.6)."""
    if realize:
        raw = R(raw)
    with NT():
        if CHAN.pending is not None and len(CHAN.abandoned) < 50:
            CHAN.abandoned.append(CHAN.pending)
        CHAN.pending = {"cond": cond, "raw": jsonable(raw) if realize else None}
        CHAN.counts["enter"] += 1


def judge(prop, cond, raw, args, obs, oracle, realize_obs=True):
    """Realise, then run `oracle(args, obs)` natively.

    oracle returns (nontrivial: bool, failures: list of dict, note: anything json-able).
    Returns True iff the property held on this input or every failure is a listed known finding.
    """
    if realize_obs:
        raw, args, obs = R((raw, args, obs))
    else:  # obs holds library objects built from concrete data only
        raw, args = R((raw, args))
    with NT():
        CHAN.pending = None
        CHAN.counts["reached"] += 1
        jargs = jsonable(args)
        jraw = jsonable(raw)
        try:
            nontrivial, failures, note = oracle(args, obs)
        except _NotDeterministic:
            raise
        except Exception as exc:  # an oracle crash is a harness error, never a verdict
            import traceback
            CHAN.errors.append({"cond": cond, "raw": jraw, "args": jargs, "error": "oracle crashed: %r" % (exc,),
                                "traceback": traceback.format_exc()[-1500:]})
            CHAN.fails.append({"cond": cond, "raw": jraw, "args": jargs, "failures": [
                {"kind": "oracle_error", "detail": repr(exc)}], "harness_error": True})
            return False
        if nontrivial:
            CHAN.counts["nontrivial"] += 1
            CHAN.distinct.add(_digest(jargs))
            CHAN.last_nontrivial = True
        else:
            CHAN.last_nontrivial = False
        if len(CHAN.samples) < MAX_SAMPLES:
            CHAN.samples.append({"cond": cond, "raw": jraw, "input": jsonable(note)})
        if not failures:
            return True
        unknown = []
        for f in failures:
            fid = match_known(prop, cond, f)
            if fid is None:
                unknown.append(f)
            else:
                CHAN.counts["known"] += 1
                if fid not in CHAN.knowns:
                    CHAN.knowns[fid] = {"cond": cond, "raw": jraw, "failure": jsonable(f)}
        if not unknown:
            return True
        CHAN.counts["fail"] += 1
        CHAN.fails.append({"cond": cond, "raw": jraw, "failures": jsonable(unknown),
                           "input": jsonable(note)})
        return False


def assumed_away(cond):
    """The input is outside the property's own validity predicate: counted, not judged."""
    with NT():
        CHAN.pending = None
        CHAN.counts["assumed_away"] += 1
    return True


# ----------------------------------------------------------------------------------------
# running library code

def _site(exc):
    tb = exc.__traceback__
    site = None
    while tb is not None:
        fn = tb.tb_frame.f_code.co_filename
        if "/pyformlang/" in fn:
            site = fn.split("/pyformlang/", 1)[1] + ":" + tb.tb_frame.f_code.co_name
        tb = tb.tb_next
    return site


def guarded(fn, *a, **kw):
    """Run library code; ('ok', value) or ('exc', type name, raising site inside pyformlang, message).
    Only `Exception` is caught: CrossHair steers paths with BaseExceptions."""
    try:
        return ("ok", fn(*a, **kw))
    except _NotDeterministic:
        raise
    except Exception as exc:
        name = type(exc).__name__
        with NT():
            site = _site(exc)
            try:
                msg = str(exc)[:160]
            except Exception:
                msg = ""
        return ("exc", name, site, msg)


def exc_failure(op, res, **extra):
    d = {"kind": "exception", "op": op, "exc": res[1], "site": res[2], "detail": res[3]}
    d.update(extra)
    return d


def take(gen, cap):
    """Consume at most cap items of a generator (non-termination guard, DESIGN 2.6)."""
    out = []
    for item in gen:
        out.append(item)
        if len(out) >= cap:
            break
    return out


# ----------------------------------------------------------------------------------------
# CrossHair configuration (worker process only)

Z3STATS = {"queries": 0, "seconds": 0.0, "unknown": 0}


def configure_crosshair():
    import crosshair.statespace as ss

    # 1. never take the optional alternative of a "parallel" node (DESIGN 2.5.1)
    orig_fork = ss.StateSpace.fork_parallel

    def fork_parallel(self, false_probability, desc=""):
        return orig_fork(self, 1.0, desc)

    ss.StateSpace.fork_parallel = fork_parallel

    # 2. count solver queries and solver time
    orig_sat = ss.solver_is_sat

    def solver_is_sat(solver, *exprs):
        t0 = time.perf_counter()
        try:
            return orig_sat(solver, *exprs)
        except ss.UnknownSatisfiability:
            Z3STATS["unknown"] += 1
            raise
        finally:
            Z3STATS["queries"] += 1
            Z3STATS["seconds"] += time.perf_counter() - t0

    ss.solver_is_sat = solver_is_sat

    # 3. no sub-contract enforcement: CrossHair's EnforcedConditions tracer inspects EVERY call made by traced
    #    code for a PEP316 contract on the callee (and routes every instantiation through manual_constructor).
    #    The only contract in an analysis is the harness function's own, which attempt_call checks itself;
    #    pyformlang, networkx and the oracles carry none. Measured (C17): 0.336 s -> 0.011 s of library time
    #    per path, same paths, same verdicts.
    if not os.environ.get("VF_KEEP_ENFORCE"):
        from crosshair import enforce as _enforce
        _enforce.EnforcedConditions.trace_call = lambda self, frame, fn, binding_target: None


    # 4. CrossHair 0.0.110 bug: its patch of list.index(value, start[, stop]) slices the list and returns the
    #    position INSIDE THE SLICE ([1,2,3,2,1,0,1,0].index(0, 2) gives 3 instead of 5). pyformlang's regex
    #    reader relies on the absolute position (parenthesis_depths.index(0, index_from)), so under tracing
    #    Regex("b.((a))") was refused. The patch is replaced by a correct one.
    import crosshair.core_and_libs  # noqa: F401  (makes the registrations)
    from crosshair import core as _core
    from crosshair.libimpl import builtinslib as _bl
    from crosshair.tracers import NoTracing as _NT, ResumedTracing as _RT
    _start_default, _stop_default = _bl._LIST_INDEX_START_DEFAULT, _bl._LIST_INDEX_STOP_DEFAULT

    def _list_index(self, value, start=_start_default, stop=_stop_default):
        with _NT():
            if not isinstance(self, list):
                raise TypeError
            n = len(self)
            lo = 0 if start is _start_default else start.__index__()
            hi = n if stop is _stop_default else stop.__index__()
            if lo < 0:
                lo = max(lo + n, 0)
            if hi < 0:
                hi = max(hi + n, 0)
            hi = min(hi, n)
            for idx in range(lo, hi):
                item = self[idx]
                with _RT():
                    isequal = value == item
                if isequal:
                    return idx
            raise ValueError("%r is not in list" % (value,))

    assert list.index in _core._PATCH_REGISTRATIONS
    _core._PATCH_REGISTRATIONS[list.index] = _list_index


_WARM = False


def warm_networkx():
    """networkx compiles decorators lazily with exec(); do it natively once (DESIGN 2.5.2)."""
    global _WARM
    if _WARM:
        return
    _WARM = True
    import networkx as nx
    g = nx.MultiDiGraph()
    g.add_node(0, is_start=True)
    g.add_edge(0, 1, label="a")
    g.add_edge(1, 0, label="b")
    list(g.nodes)
    list(g.edges(data=True))
    d = nx.DiGraph()
    d.add_edge(0, 1)
    d.add_edge(1, 0)
    try:
        nx.find_cycle(d)
    except Exception:
        pass
    try:
        nx.core_number(nx.Graph([(0, 1)]))
        nx.minimum_spanning_tree(nx.Graph([(0, 1)]))
        nx.minimum_spanning_arborescence(nx.DiGraph([(0, 1)]))
    except Exception:
        pass
    try:
        from pyformlang.finite_automaton import EpsilonNFA
        e = EpsilonNFA()
        e.add_transitions([(0, "a", 1), (0, "epsilon", 1)])
        e.add_start_state(0)
        e.add_final_state(1)
        EpsilonNFA.from_networkx(e.to_networkx())
    except Exception:
        pass
