"""Self-check fixtures of the parse-tree validators (the repository's own test trees)."""
from vlib.oracles import trees as _t

for _name in dir(_t):
    if _name.startswith("selftest_"):
        globals()["check_" + _name[len("selftest_"):]] = getattr(_t, _name)
