"""O-PYRE: the oracle C07 names — CPython's `re.fullmatch` — plus a recogniser of the documented
subset of PythonRegex (class docstring: sets [], negated sets [^...], +, '.', ?, {m}, {n,m},
\\d \\s \\w; on top of the basic operators | ( ) * and literals / escaped metacharacters).

The recogniser uses CPython's own pattern parser (re._parser) so that "in the subset" is decided on
the parse tree, not on the spelling: only LITERAL, ANY, IN (LITERAL / RANGE / NEGATE / CATEGORY
digit|space|word), BRANCH, plain capturing SUBPATTERN and greedy MAX_REPEAT nodes are allowed.
"""
import re
import warnings

try:
    import re._parser as sre_parse
    import re._constants as sre_c
except ImportError:  # pragma: no cover
    import sre_parse
    import sre_constants as sre_c

META = set(".^$*+?{}[]\\|()")
ALLOWED_AFTER_BACKSLASH = META | set("dsw-")


def compiles(p):
    try:
        with warnings.catch_warnings():
            warnings.simplefilter("ignore")
            re.compile(p)
        return True
    except re.error:
        return False
    except (OverflowError, RecursionError):
        return False


def _node_ok(op, av):
    c = sre_c
    if op is c.LITERAL:
        return True
    if op is c.NOT_LITERAL:
        return True          # [^a] with one literal is optimised to NOT_LITERAL
    if op is c.ANY:
        return True
    if op is c.IN:
        for iop, iav in av:
            if iop in (c.LITERAL, c.RANGE, c.NEGATE):
                continue
            if iop is c.CATEGORY and iav in (c.CATEGORY_DIGIT, c.CATEGORY_SPACE, c.CATEGORY_WORD):
                continue
            return False
        return True
    if op is c.BRANCH:
        return all(_seq_ok(s) for s in av[1])
    if op is c.SUBPATTERN:
        group, add_flags, del_flags, sub = av
        if group is None or add_flags or del_flags:
            return False
        return _seq_ok(sub)
    if op is c.MAX_REPEAT:
        lo, hi, sub = av
        return _seq_ok(sub)
    return False        # AT, MIN_REPEAT, POSSESSIVE_REPEAT, GROUPREF, ASSERT, ATOMIC_GROUP, CATEGORY at top ...


def _seq_ok(seq):
    for op, av in seq:
        if op is sre_c.IN and len(av) == 1 and av[0][0] is sre_c.CATEGORY:
            if av[0][1] in (sre_c.CATEGORY_DIGIT, sre_c.CATEGORY_SPACE, sre_c.CATEGORY_WORD):
                continue
            return False
        if not _node_ok(op, av):
            return False
    return True


def in_documented_subset(p):
    """p compiles. True iff p only uses documented constructs (spelled in the documented way)."""
    # spelling checks first
    i = 0
    n = len(p)
    while i < n:
        ch = p[i]
        if ch == "\\":
            if i + 1 >= n or p[i + 1] not in ALLOWED_AFTER_BACKSLASH:
                return False
            i += 2
            continue
        if not (32 <= ord(ch) < 127):
            return False
        i += 1
    # every '{' must be a {m} or {m,n} quantifier spelled with digits (outside sets a bare '{' is a literal
    # in Python: undocumented)
    stripped = re.sub(r"\\.", "", p)
    without_sets = re.sub(r"\[\^?\]?[^\]]*\]", "", stripped)
    for m in re.finditer(r"\{", without_sets):
        if not re.match(r"\{\d+(,\d+)?\}", without_sets[m.start():]):
            return False
    if "}" in re.sub(r"\{\d+(,\d+)?\}", "", without_sets):
        return False
    if "^" in without_sets or "$" in without_sets:
        return False
    if "(?" in without_sets:
        return False        # extension notation: flags, non-capturing / named groups, look-around
    try:
        with warnings.catch_warnings():
            warnings.simplefilter("ignore")
            tree = sre_parse.parse(p)
    except Exception:
        return False
    return _seq_ok(tree)


def tags(p):
    """Input-class tags used for known-finding matching."""
    t = []
    stripped = re.sub(r"\\.", "", p)
    without_sets = re.sub(r"\[\^?\]?[^\]]*\]", "S", stripped)
    if p == "":
        t.append("empty_pattern")
    if without_sets.startswith("|") or without_sets.endswith("|") or "||" in without_sets \
            or "(|" in without_sets or "|)" in without_sets:
        t.append("empty_alternative")
    if "()" in without_sets:
        t.append("empty_group")
    if re.search(r"\{0\}|\{0,", without_sets):
        t.append("zero_repetition")
    if re.search(r"[*+?}][*+?{]", without_sets):
        t.append("stacked_quantifier")
    if "[" in stripped:
        t.append("has_set")
        # contents of the sets, as CPython delimits them (a leading ']' is a member; escapes are kept)
        for m in re.finditer(r"(?<!\\)\[(\^?)(\]?(?:\\.|[^\]\\])*)\]", p):
            neg, content = m.group(1), m.group(2)
            bare = re.sub(r"\\.", "", content)
            if content.startswith("]"):
                t.append("set_leading_close_bracket")
            if "." in bare:
                t.append("set_contains_dot")
            if "[" in bare:
                t.append("set_contains_open_bracket")
            if neg and re.search(r"\\[dsw]", content):
                t.append("negated_set_contains_shortcut")
            if "$" in bare:
                t.append("set_contains_dollar")
    if "\\" in p:
        t.append("has_escape")
    return t


def fullmatch(p, s):
    with warnings.catch_warnings():
        warnings.simplefilter("ignore")
        return re.fullmatch(p, s) is not None
