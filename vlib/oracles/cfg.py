"""O-CFG: reference semantics of context-free grammars, from the definitions.

A reference grammar is `G(start, prods)`: start is a variable name (or None); prods is a list of
(head_name, body) with body a tuple of symbols, each symbol ("V", name) or ("T", name).
Words are tuples of terminal names. Nothing here shares code with pyformlang; `extract` reads a
pyformlang CFG through `start_symbol` / `productions` / `variables` / `terminals` only.
"""


class G:
    def __init__(self, start, prods, variables=(), terminals=()):
        self.start = start
        self.prods = [(h, tuple(b)) for h, b in prods]
        self.variables = set(variables) | {h for h, _ in self.prods} | \
            {s[1] for _, b in self.prods for s in b if s[0] == "V"}
        if start is not None:
            self.variables.add(start)
        self.terminals = set(terminals) | {s[1] for _, b in self.prods for s in b if s[0] == "T"}

    def describe(self):
        return {"start": self.start,
                "prods": sorted("%s -> %s" % (h, " ".join(("<%s>" % s[1]) if s[0] == "V" else repr(s[1])
                                                         for s in b) or "eps") for h, b in self.prods)}


def V(x):
    return ("V", x)


def T(x):
    return ("T", x)


def extract(cfg):
    from pyformlang.cfg import Variable, Terminal
    from pyformlang.cfg.epsilon import Epsilon
    prods = []
    for p in cfg.productions:
        body = []
        for s in p.body:
            if isinstance(s, Epsilon):
                continue
            if isinstance(s, Variable):
                body.append(("V", s.value))
            elif isinstance(s, Terminal):
                body.append(("T", s.value))
            else:
                raise TypeError("unexpected body object %r" % (s,))
        prods.append((p.head.value, tuple(body)))
    start = cfg.start_symbol.value if cfg.start_symbol is not None else None
    return G(start, prods, [v.value for v in cfg.variables],
             [t.value for t in cfg.terminals if not isinstance(t, Epsilon)])


# ----------------------------------------------------------------------------------------
# language up to a length bound (exact for words of length <= L)

def langs_upto(g, L):
    lang = {v: set() for v in g.variables}
    changed = True
    while changed:
        changed = False
        for h, body in g.prods:
            # all concatenations of length <= L
            partial = {()}
            for s in body:
                if s[0] == "T":
                    partial = {w + (s[1],) for w in partial if len(w) + 1 <= L}
                else:
                    nxt = set()
                    for w in partial:
                        for u in lang[s[1]]:
                            if len(w) + len(u) <= L:
                                nxt.add(w + u)
                    partial = nxt
                if not partial:
                    break
            new = partial - lang[h]
            if new:
                lang[h] |= new
                changed = True
    return lang


def words_upto(g, L):
    if g.start is None:
        return set()
    return set(langs_upto(g, L).get(g.start, set()))


def contains(g, word):
    return tuple(word) in words_upto(g, len(word))


# ----------------------------------------------------------------------------------------
# symbol classes

def generating_vars(g):
    gen = set()
    changed = True
    while changed:
        changed = False
        for h, body in g.prods:
            if h not in gen and all(s[0] == "T" or s[1] in gen for s in body):
                gen.add(h)
                changed = True
    return gen


def nullable_vars(g):
    nul = set()
    changed = True
    while changed:
        changed = False
        for h, body in g.prods:
            if h not in nul and all(s[0] == "V" and s[1] in nul for s in body):
                nul.add(h)
                changed = True
    return nul


def reachable_symbols(g):
    """Symbols (variables and terminals) occurring in a sentential form derivable from start."""
    if g.start is None:
        return set()
    reach = {("V", g.start)}
    todo = [g.start]
    while todo:
        v = todo.pop()
        for h, body in g.prods:
            if h == v:
                for s in body:
                    if s not in reach:
                        reach.add(s)
                        if s[0] == "V":
                            todo.append(s[1])
    return reach


def is_empty(g):
    return g.start is None or g.start not in generating_vars(g)


def useful_prods(g):
    gen = generating_vars(g)
    prods = [(h, b) for h, b in g.prods if h in gen and all(s[0] == "T" or s[1] in gen for s in b)]
    g2 = G(g.start, prods)
    reach = reachable_symbols(g2)
    return [(h, b) for h, b in prods if ("V", h) in reach]


def is_finite(g):
    if is_empty(g):
        return True
    prods = useful_prods(g)
    # variables deriving some non-empty word
    ne = set()
    changed = True
    while changed:
        changed = False
        for h, b in prods:
            if h not in ne and any(s[0] == "T" or s[1] in ne for s in b):
                ne.add(h)
                changed = True
    edges = set()      # (A, B, growing)
    for h, b in prods:
        for i, s in enumerate(b):
            if s[0] == "V":
                rest = b[:i] + b[i + 1:]
                growing = any(x[0] == "T" or x[1] in ne for x in rest)
                edges.add((h, s[1], growing))
    nodes = {h for h, _ in prods}
    # a cycle through a growing edge: for each growing edge (A,B): is A reachable from B?
    succ = {}
    for a, b2, _ in edges:
        succ.setdefault(a, set()).add(b2)
    for a, b2, growing in edges:
        if not growing:
            continue
        seen = set()
        todo = [b2]
        while todo:
            x = todo.pop()
            if x == a:
                return False
            if x in seen:
                continue
            seen.add(x)
            todo.extend(succ.get(x, ()))
    return True


def max_word_length(g):
    """Length of the longest word of a finite, non-empty language (by iterating the bound)."""
    assert is_finite(g)
    L = 0
    prev = None
    # the language is finite: lengths are bounded by (max body length)^(#useful vars); iterate
    bound = 1
    nvars = len({h for h, _ in useful_prods(g)})
    mb = max([len(b) for _, b in g.prods] + [1])
    bound = max(1, mb ** max(1, nvars))
    ws = words_upto(g, bound)
    return max([len(w) for w in ws] + [0])


# ----------------------------------------------------------------------------------------
# shape predicates

def has_epsilon_production(g):
    return any(len(b) == 0 for _, b in g.prods)


def has_unit_production(g):
    return any(len(b) == 1 and b[0][0] == "V" for _, b in g.prods)


def is_cnf(g):
    for _, b in g.prods:
        if len(b) == 1 and b[0][0] == "T":
            continue
        if len(b) == 2 and b[0][0] == "V" and b[1][0] == "V":
            continue
        return False
    return True


def useless_symbols_present(g):
    """Symbols used by the grammar (in productions, variables or terminals) that are not both
    generating and reachable."""
    gen = generating_vars(g)
    reach = reachable_symbols(g)
    bad = []
    for v in g.variables:
        if v not in gen or ("V", v) not in reach:
            bad.append(("V", v))
    for t in g.terminals:
        if ("T", t) not in reach:
            bad.append(("T", t))
    return bad


# ----------------------------------------------------------------------------------------
# FIRST / FOLLOW / LL(1)   (textbook; "$" marks end of input, "" marks epsilon)

EPS = ""
END = "$END$"


def first_sets(g):
    first = {v: set() for v in g.variables}
    changed = True
    while changed:
        changed = False
        for h, b in g.prods:
            f = first_of_seq(b, first)
            if not f <= first[h]:
                first[h] |= f
                changed = True
    return first


def first_of_seq(seq, first):
    out = set()
    for s in seq:
        if s[0] == "T":
            out.add(s[1])
            return out
        out |= (first[s[1]] - {EPS})
        if EPS not in first[s[1]]:
            return out
    out.add(EPS)
    return out


def follow_sets(g, first=None):
    first = first or first_sets(g)
    follow = {v: set() for v in g.variables}
    if g.start is not None:
        follow[g.start].add(END)
    changed = True
    while changed:
        changed = False
        for h, b in g.prods:
            for i, s in enumerate(b):
                if s[0] != "V":
                    continue
                f = first_of_seq(b[i + 1:], first)
                add = (f - {EPS}) | (follow[h] if EPS in f else set())
                if not add <= follow[s[1]]:
                    follow[s[1]] |= add
                    changed = True
    return follow


def predict_sets(g):
    first = first_sets(g)
    follow = follow_sets(g, first)
    out = []
    for h, b in g.prods:
        f = first_of_seq(b, first)
        p = (f - {EPS}) | (follow[h] if EPS in f else set())
        out.append((h, b, p))
    return out


def is_ll1(g):
    """No two distinct productions of a variable share a predict symbol."""
    seen = {}
    for h, b, p in predict_sets(g):
        for a in p:
            key = (h, a)
            if key in seen and seen[key] != b:
                return False
            seen[key] = b
    return True
