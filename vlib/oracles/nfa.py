"""O-NFA: reference semantics of epsilon-NFAs, written from the definitions.

A reference automaton is a `Ref`: plain sets/dicts over arbitrary hashable labels; epsilon moves are
kept apart from symbol moves. Nothing here imports pyformlang except `extract`, which only reads
the observation points the properties name (states, start_states, final_states, symbols, iteration
over transitions).
"""
from collections import deque
from itertools import product


class Ref:
    def __init__(self, states=(), alphabet=(), delta=None, eps=None, starts=(), finals=()):
        self.states = set(states)
        self.alphabet = set(alphabet)
        self.delta = {}          # (q, a) -> set
        self.eps = {}            # q -> set
        self.starts = set(starts)
        self.finals = set(finals)
        for (q, a), ts in (delta or {}).items():
            for t in ts:
                self.add(q, a, t)
        for q, ts in (eps or {}).items():
            for t in ts:
                self.add_eps(q, t)
        self.states |= self.starts | self.finals

    def add(self, q, a, t):
        self.states.add(q)
        self.states.add(t)
        self.alphabet.add(a)
        self.delta.setdefault((q, a), set()).add(t)

    def add_eps(self, q, t):
        self.states.add(q)
        self.states.add(t)
        self.eps.setdefault(q, set()).add(t)

    def edges(self):
        out = []
        for (q, a), ts in self.delta.items():
            for t in ts:
                out.append((q, ("s", a), t))
        for q, ts in self.eps.items():
            for t in ts:
                out.append((q, ("e",), t))
        return out

    def describe(self):
        return {"states": sorted(map(repr, self.states)), "starts": sorted(map(repr, self.starts)),
                "finals": sorted(map(repr, self.finals)),
                "edges": sorted((repr(q), repr(l), repr(t)) for q, l, t in self.edges())}


def from_spec(n, edges, starts, finals, alphabet=()):
    """edges: iterable of (q, a, t) with a None for epsilon."""
    r = Ref(states=range(n), alphabet=alphabet, starts=starts, finals=finals)
    for q, a, t in edges:
        if a is None:
            r.add_eps(q, t)
        else:
            r.add(q, a, t)
    return r


def extract(fa):
    """Read a pyformlang finite automaton through its public observation points."""
    from pyformlang.finite_automaton import Epsilon
    r = Ref()
    for s in fa.states:
        r.states.add(s.value)
    for s in fa.start_states:
        r.starts.add(s.value)
        r.states.add(s.value)
    for s in fa.final_states:
        r.finals.add(s.value)
        r.states.add(s.value)
    for a in fa.symbols:
        r.alphabet.add(a.value)
    for q, a, t in fa:
        if isinstance(a, Epsilon):
            r.add_eps(q.value, t.value)
        else:
            r.add(q.value, a.value, t.value)
    return r


# ----------------------------------------------------------------------------------------
# run semantics

def eclose(r, S):
    seen = set(S)
    todo = list(S)
    while todo:
        q = todo.pop()
        for t in r.eps.get(q, ()):
            if t not in seen:
                seen.add(t)
                todo.append(t)
    return frozenset(seen)


def step(r, S, a):
    nxt = set()
    for q in S:
        nxt |= r.delta.get((q, a), set())
    return eclose(r, nxt)


def start_set(r):
    return eclose(r, r.starts)


def accepting(r, S):
    return any(q in r.finals for q in S)


def accepts(r, word):
    S = start_set(r)
    for a in word:
        S = step(r, S, a)
    return accepting(r, S)


# ----------------------------------------------------------------------------------------
# exact language comparison (no word bound): lock-step subset constructions

def equivalent(r1, r2, alphabet=None):
    """(True, None) or (False, witness word accepted by exactly one)."""
    sigma = sorted((r1.alphabet | r2.alphabet) if alphabet is None else alphabet, key=repr)
    s0 = (start_set(r1), start_set(r2))
    seen = {s0}
    todo = deque([(s0, ())])
    while todo:
        (a1, a2), w = todo.popleft()
        if accepting(r1, a1) != accepting(r2, a2):
            return False, list(w)
        for a in sigma:
            nx = (step(r1, a1, a), step(r2, a2, a))
            if nx not in seen:
                seen.add(nx)
                todo.append((nx, w + (a,)))
    return True, None


def combine(refs, fn, alphabet=None):
    """Deterministic product: accepts w iff fn(*(w in L(r) for r in refs)). Over `alphabet`
    (default: union); a word using any other symbol is rejected."""
    sigma = set().union(*[r.alphabet for r in refs]) if alphabet is None else set(alphabet)
    out = Ref(alphabet=sigma)
    s0 = tuple(start_set(r) for r in refs)
    out.starts = {s0}
    out.states = {s0}
    todo = [s0]
    seen = {s0}
    while todo:
        cur = todo.pop()
        if fn(*[accepting(r, S) for r, S in zip(refs, cur)]):
            out.finals.add(cur)
        for a in sigma:
            nx = tuple(step(r, S, a) for r, S in zip(refs, cur))
            out.add(cur, a, nx)
            if nx not in seen:
                seen.add(nx)
                todo.append(nx)
    return out


def complement(r):
    """Complement relative to r's own alphabet."""
    return combine([r], lambda x: not x, alphabet=r.alphabet)


def _tag(r, tag):
    out = Ref(alphabet=r.alphabet)
    out.states = {(tag, q) for q in r.states}
    out.starts = {(tag, q) for q in r.starts}
    out.finals = {(tag, q) for q in r.finals}
    for (q, a), ts in r.delta.items():
        for t in ts:
            out.add((tag, q), a, (tag, t))
    for q, ts in r.eps.items():
        for t in ts:
            out.add_eps((tag, q), (tag, t))
    return out


def union(r1, r2):
    a, b = _tag(r1, 0), _tag(r2, 1)
    out = Ref(alphabet=a.alphabet | b.alphabet)
    for x in (a, b):
        out.states |= x.states
        out.starts |= x.starts
        out.finals |= x.finals
        for q, l, t in x.edges():
            if l[0] == "e":
                out.add_eps(q, t)
            else:
                out.add(q, l[1], t)
    return out


def concat(r1, r2):
    a, b = _tag(r1, 0), _tag(r2, 1)
    out = union(r1, r2)
    out.starts = set(a.starts)
    out.finals = set(b.finals)
    for f in a.finals:
        for s in b.starts:
            out.add_eps(f, s)
    return out


def star(r):
    a = _tag(r, 0)
    out = Ref(alphabet=a.alphabet)
    out.states = set(a.states) | {"new"}
    for q, l, t in a.edges():
        if l[0] == "e":
            out.add_eps(q, t)
        else:
            out.add(q, l[1], t)
    out.starts = {"new"}
    out.finals = {"new"}
    for s in a.starts:
        out.add_eps("new", s)
    for f in a.finals:
        out.add_eps(f, "new")
    return out


def reverse(r):
    out = Ref(alphabet=r.alphabet)
    out.states = set(r.states)
    out.starts = set(r.finals)
    out.finals = set(r.starts)
    for q, l, t in r.edges():
        if l[0] == "e":
            out.add_eps(t, q)
        else:
            out.add(t, l[1], q)
    return out


# ----------------------------------------------------------------------------------------
# predicates

def is_empty(r):
    seen = set(r.starts)
    todo = list(r.starts)
    while todo:
        q = todo.pop()
        if q in r.finals:
            return False
        for (p, a), ts in r.delta.items():
            if p == q:
                for t in ts:
                    if t not in seen:
                        seen.add(t)
                        todo.append(t)
        for t in r.eps.get(q, ()):
            if t not in seen:
                seen.add(t)
                todo.append(t)
    return True


def successors(r, q):
    out = set(r.eps.get(q, ()))
    for (p, a), ts in r.delta.items():
        if p == q:
            out |= ts
    return out


def reachable(r):
    seen = set(r.starts)
    todo = list(r.starts)
    while todo:
        q = todo.pop()
        for t in successors(r, q):
            if t not in seen:
                seen.add(t)
                todo.append(t)
    return seen


def has_reachable_cycle(r):
    """A cycle (of any edges, epsilon included, self loops included) reachable from a start state."""
    reach = reachable(r)
    for q in reach:
        # is q reachable from one of its successors?
        seen = set()
        todo = list(successors(r, q))
        while todo:
            x = todo.pop()
            if x == q:
                return True
            if x in seen:
                continue
            seen.add(x)
            todo.extend(successors(r, x))
    return False


def is_deterministic_def(r):
    """<=1 start state, <=1 successor per (state, symbol), no epsilon move to another state."""
    if len(r.starts) > 1:
        return False
    for ts in r.delta.values():
        if len(ts) > 1:
            return False
    for q, ts in r.eps.items():
        if any(t != q for t in ts):
            return False
    return True


def determinize(r, alphabet=None):
    return combine([r], lambda x: x, alphabet=alphabet)


def language_finite(r):
    d = determinize(r)
    # useful states of the DFA
    reach = reachable(d)
    rev = reverse(d)
    coreach = reachable(rev)
    useful = reach & coreach
    # cycle among useful states?
    for q in useful:
        seen = set()
        todo = [t for t in successors(d, q) if t in useful]
        while todo:
            x = todo.pop()
            if x == q:
                return False
            if x in seen:
                continue
            seen.add(x)
            todo.extend(t for t in successors(d, x) if t in useful)
    return True


def words_upto(r, n, alphabet=None):
    """Set of accepted words (tuples) of length <= n. n=None requires a finite language."""
    if n is None:
        assert language_finite(r)
        n = len(determinize(r).states) + 1
    sigma = sorted(r.alphabet if alphabet is None else alphabet, key=repr)
    out = set()
    level = {(): start_set(r)}
    for length in range(n + 1):
        nxt = {}
        for w, S in level.items():
            if accepting(r, S):
                out.add(w)
            if length < n:
                for a in sigma:
                    T = step(r, S, a)
                    if T:
                        nxt[w + (a,)] = T
        level = nxt
    return out


# ----------------------------------------------------------------------------------------
# DFA-specific: reachability, distinguishability, isomorphism

def dfa_shape_problems(r):
    """Why r is not a (partial) DFA without epsilon moves; empty list if it is."""
    probs = []
    if len(r.starts) > 1:
        probs.append("several start states")
    if any(r.eps.values()):
        probs.append("epsilon transition")
    for (q, a), ts in r.delta.items():
        if len(ts) > 1:
            probs.append("two successors for %r/%r" % (q, a))
    return probs


def dfa_succ(r, q, a):
    ts = r.delta.get((q, a))
    if not ts:
        return None
    return next(iter(ts))


def indistinguishable_pairs(r, alphabet=None):
    """Pairs of distinct explicit states of a partial DFA with the same residual language
    (None = implicit dead state)."""
    sigma = sorted(r.alphabet if alphabet is None else alphabet, key=repr)
    states = list(r.states) + [None]
    dist = set()
    for p, q in product(states, states):
        if (p in r.finals) != (q in r.finals):
            dist.add((p, q))
    changed = True
    while changed:
        changed = False
        for p, q in product(states, states):
            if (p, q) in dist:
                continue
            for a in sigma:
                pn = dfa_succ(r, p, a) if p is not None else None
                qn = dfa_succ(r, q, a) if q is not None else None
                if (pn, qn) in dist:
                    dist.add((p, q))
                    changed = True
                    break
    out = []
    ss = list(r.states)
    for i, p in enumerate(ss):
        for q in ss[i + 1:]:
            if (p, q) not in dist:
                out.append((p, q))
    return out


def dead_states(r):
    """Explicit states from which no final state is reachable."""
    rev = reverse(r)
    co = reachable(rev)
    return [q for q in r.states if q not in co]


def isomorphic(r1, r2):
    """Isomorphism of two partial DFAs (same alphabet on edges, bijection of states preserving
    start, finals and transitions). Unreachable states make it fail unless matched."""
    if len(r1.states) != len(r2.states) or len(r1.starts) != len(r2.starts):
        return False
    if len(r1.finals) != len(r2.finals):
        return False
    if not r1.starts:
        # no start state: both must be edge-isomorphic; only trivial case supported exactly
        return len(r1.states) == len(r2.states) and sum(map(len, r1.delta.values())) == \
            sum(map(len, r2.delta.values()))
    s1, s2 = next(iter(r1.starts)), next(iter(r2.starts))
    m = {s1: s2}
    todo = [s1]
    while todo:
        p = todo.pop()
        q = m[p]
        if (p in r1.finals) != (q in r2.finals):
            return False
        syms1 = {a for (x, a) in r1.delta if x == p and r1.delta[(x, a)]}
        syms2 = {a for (x, a) in r2.delta if x == q and r2.delta[(x, a)]}
        if syms1 != syms2:
            return False
        for a in syms1:
            pn, qn = dfa_succ(r1, p, a), dfa_succ(r2, q, a)
            if pn in m:
                if m[pn] != qn:
                    return False
            else:
                if qn in m.values():
                    return False
                m[pn] = qn
                todo.append(pn)
    return len(m) == len(r1.states)
