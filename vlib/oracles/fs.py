"""O-FS: reference semantics of feature structures and of feature context-free grammars (C18),
written from the definitions. Shares no code with pyformlang; `extract` / `leaf_paths_of_library`
only read a library object through its public accessors.

Plain-data feature structure (a rooted DAG; sharing = node identity):

    {"root": r, "nodes": [node, ...]}        node ids are list indices
    node = ("A", value)                      atomic value
         | ("C", {feature: node id})         complex; ("C", {}) is the unspecified node

Unification = union-find over the disjoint union of both node sets, merging the roots and then,
recursively, the children reached by the same feature. An atom meeting a different atom is a CLASH
(the structures are incompatible); an atom meeting a complex node that has a feature is a TYPE
inconsistency (outside the property's quantifier "consistently typed"); a result in which a node
reaches itself is CYCLIC (also outside: "bounded depth").

Canonical form (what "equal" means): the set of path-equivalence classes of the structure (two
paths are equivalent when they lead to the same node) with the atom carried by each class. Two
structures are equal iff their canonical forms are; the canonical form of the unification result
is the glb (most general structure carrying the information of both).

Second half: a membership oracle for plain CFGs (least fixpoint of the words of length <= L per
variable) and the instantiation of a feature-annotated grammar over a finite value domain.
"""
from itertools import product

UNSPEC = ("C", {})


# ----------------------------------------------------------------------------------------
# plain-data structures

def is_cyclic(fs):
    nodes = fs["nodes"]
    state = {}

    def visit(i):
        if state.get(i) == 1:
            return True
        if state.get(i) == 2:
            return False
        state[i] = 1
        kind, payload = nodes[i]
        if kind == "C":
            for child in payload.values():
                if visit(child):
                    return True
        state[i] = 2
        return False

    return visit(fs["root"])


def paths_of(fs):
    """dict path (tuple of features) -> node id, for every path of an acyclic structure."""
    nodes = fs["nodes"]
    out = {}

    def walk(i, path):
        out[path] = i
        kind, payload = nodes[i]
        if kind == "C":
            for feat, child in payload.items():
                walk(child, path + (feat,))

    walk(fs["root"], ())
    return out


def canon(fs):
    """Canonical form: sorted list of [sorted list of paths, atom or None] (json-able, comparable)."""
    by_node = {}
    for path, node in paths_of(fs).items():
        by_node.setdefault(node, []).append(list(path))
    out = []
    for node, paths in by_node.items():
        kind, payload = fs["nodes"][node]
        out.append([sorted(paths), payload if kind == "A" else None])
    out.sort(key=lambda c: c[0])
    return out


def leaf_paths(fs):
    """The maximal paths (those ending in a node without features); [()] for a feature-less root."""
    nodes = fs["nodes"]
    return sorted(p for p, i in paths_of(fs).items() if nodes[i][0] == "A" or not nodes[i][1])


def unify(a, b):
    """Returns (status, result): status 'ok' (result = the glb as a plain structure), 'clash'
    (incompatible: two different atoms meet), 'type' (atom meets complex) or 'cyclic'. 'type' and
    'cyclic' take precedence over 'clash': such pairs are outside the property's quantifier."""
    na = len(a["nodes"])
    nodes = [n for n in a["nodes"]]
    for kind, payload in b["nodes"]:
        if kind == "C":
            nodes.append(("C", {f: c + na for f, c in payload.items()}))
        else:
            nodes.append((kind, payload))
    parent = list(range(len(nodes)))
    # per class representative: atom (or None) and feature map
    atom = {i: (n[1] if n[0] == "A" else None) for i, n in enumerate(nodes)}
    is_atom = {i: n[0] == "A" for i, n in enumerate(nodes)}
    feats = {i: (dict(n[1]) if n[0] == "C" else {}) for i, n in enumerate(nodes)}
    flags = {"clash": False, "type": False}

    def find(x):
        while parent[x] != x:
            parent[x] = parent[parent[x]]
            x = parent[x]
        return x

    todo = [(a["root"], b["root"] + na)]
    while todo:
        x, y = todo.pop()
        x, y = find(x), find(y)
        if x == y:
            continue
        if is_atom[x] and is_atom[y] and atom[x] != atom[y]:
            flags["clash"] = True
        if (is_atom[x] and feats[y]) or (is_atom[y] and feats[x]):
            flags["type"] = True
        parent[y] = x
        if is_atom[y] and not is_atom[x]:
            is_atom[x] = True
            atom[x] = atom[y]
        for f, c in feats[y].items():
            if f in feats[x]:
                todo.append((feats[x][f], c))
            else:
                feats[x][f] = c
    # rebuild a plain structure from the classes reachable from the root
    index = {}
    out_nodes = []

    def build(x):
        x = find(x)
        if x in index:
            return index[x]
        index[x] = len(out_nodes)
        out_nodes.append(None)
        me = index[x]
        if is_atom[x] and not feats[x]:
            out_nodes[me] = ("A", atom[x])
        else:
            out_nodes[me] = ("C", {f: build(c) for f, c in feats[x].items()})
        return me

    root = build(a["root"])
    res = {"root": root, "nodes": out_nodes}
    if flags["type"]:
        return "type", None
    if is_cyclic(res):
        return "cyclic", None
    if flags["clash"]:
        return "clash", None
    return "ok", res


def subsumes_canon(general, specific):
    """general ⊑ specific on canonical forms (every path, every sharing, every atom of `general`
    is present in `specific`). Used for sanity checks of the glb."""
    where = {}
    for k, (paths, at) in enumerate(specific):
        for p in paths:
            where[tuple(p)] = (k, at)
    for paths, at in general:
        ks = set()
        for p in paths:
            if tuple(p) not in where:
                return False
            ks.add(where[tuple(p)][0])
            if at is not None and where[tuple(p)][1] != at:
                return False
        if len(ks) > 1:
            return False
    return True


# ----------------------------------------------------------------------------------------
# observation of a library object (public accessors only)

class ExtractProblem(Exception):
    pass


def extract(lib_fs):
    """Read a pyformlang FeatureStructure into a plain structure.

    Observation = what the library's own path API shows after dereferencing: the node at a path is
    `get_dereferenced()` of the object reached through `content`; two paths share iff they reach the
    identical dereferenced object; the atom is `.value`. (This is exactly the walk that
    `get_feature_by_path` performs; `check_path_api` cross-checks it.)
    A node that carries both a value and features is reported as ExtractProblem."""
    ids = {}
    nodes = []
    keep = []   # keep the objects alive so that id() stays unique

    def visit(obj):
        d = obj.get_dereferenced()
        key = id(d)
        if key in ids:
            return ids[key]
        keep.append(d)
        me = len(nodes)
        ids[key] = me
        nodes.append(None)
        content = d.content
        value = d.value
        if len(content) == 0:
            nodes[me] = ("A", value) if value is not None else ("C", {})
        else:
            if value is not None:
                raise ExtractProblem("node with both a value (%r) and features %r" % (value, list(content)))
            nodes[me] = ("C", {feat: visit(child) for feat, child in content.items()})
        return me

    root = visit(lib_fs)
    return {"root": root, "nodes": nodes}


def check_path_api(lib_fs, fs):
    """Cross-check `extract`'s walk against get_feature_by_path for every path: same dereferenced
    object on equivalent paths, same value. Returns a list of problem strings."""
    probs = []
    seen = {}
    for path, node in paths_of(fs).items():
        try:
            got = lib_fs.get_feature_by_path(list(path))
        except Exception as exc:  # noqa
            probs.append("get_feature_by_path(%r) raised %s" % (list(path), type(exc).__name__))
            continue
        d = got.get_dereferenced()
        if node in seen and seen[node] is not d:
            probs.append("paths to one node give different objects at %r" % (list(path),))
        seen.setdefault(node, d)
        kind, payload = fs["nodes"][node]
        want = payload if kind == "A" else None
        if got.value != want:
            probs.append("get_feature_by_path(%r).value = %r, walk saw %r" % (list(path), got.value, want))
    return probs


def library_leaf_paths(lib_fs):
    return sorted(tuple(p) for p in lib_fs.get_all_paths())


# ----------------------------------------------------------------------------------------
# plain CFG membership, words of length <= L

def lang_upto(prods, max_len):
    """prods: iterable of (head, body); body = sequence of ("v", variable) | ("t", terminal).
    Returns dict variable -> set of words (tuples of terminals) of length <= max_len it derives.
    Least fixpoint by Kleene iteration: exact for every word of length <= max_len."""
    prods = [(h, tuple(b)) for h, b in prods]
    lang = {}
    for h, _ in prods:
        lang.setdefault(h, set())
    changed = True
    while changed:
        changed = False
        for head, body in prods:
            acc = {()}
            for kind, x in body:
                if kind == "t":
                    acc = {w + (x,) for w in acc if len(w) < max_len}
                else:
                    sub = lang.get(x, ())
                    acc = {w + u for w in acc for u in sub if len(w) + len(u) <= max_len}
                if not acc:
                    break
            new = acc - lang[head]
            if new:
                lang[head] |= new
                changed = True
    return lang


def cfg_contains(prods, start, word):
    word = tuple(word)
    return word in lang_upto(prods, len(word)).get(start, ())


# ----------------------------------------------------------------------------------------
# feature-annotated grammar -> plain CFG over a finite value domain

START = ("#start#",)


def instantiate(tprods, start, features, domain):
    """tprods: list of (head name, head annotation, body); body items are ("t", terminal) or
    ("v", name, annotation); an annotation is a dict feature -> ("c", value) | ("x", variable name)
    (a feature that is not mentioned is unconstrained on that occurrence).

    Ground semantics: in a derivation tree every edge (body occurrence of the parent = head of the
    child production) carries one value of `domain` per feature; a constant annotation fixes it, a
    variable makes all occurrences of that variable inside ONE production instance carry the same
    value, no annotation leaves it free. Since the only constraints are equalities between
    variables and constants, a tree is unifiable iff such a ground labelling exists (domain must be
    non-empty and contain every constant used).

    Returns (plain productions over variables (name, values tuple), start variable START)."""
    features = list(features)
    out = set()
    for head, hann, body in tprods:
        occs = [(head, hann)] + [(it[1], it[2]) for it in body if it[0] == "v"]
        slots = []        # unknowns: ("x", var) or ("free", occurrence index, feature)
        for k, (_, ann) in enumerate(occs):
            for f in features:
                a = ann.get(f) if ann else None
                if a is None:
                    slots.append(("free", k, f))
                elif a[0] == "x" and ("x", a[1]) not in slots:
                    slots.append(("x", a[1]))
        for choice in product(domain, repeat=len(slots)):
            env = dict(zip(slots, choice))

            def val(k, f):
                ann = occs[k][1]
                a = ann.get(f) if ann else None
                if a is None:
                    return env[("free", k, f)]
                if a[0] == "c":
                    return a[1]
                return env[("x", a[1])]

            k = 0
            phead = (head, tuple(val(0, f) for f in features))
            pbody = []
            for it in body:
                if it[0] == "t":
                    pbody.append(("t", it[1]))
                else:
                    k += 1
                    pbody.append(("v", (it[1], tuple(val(k, f) for f in features))))
            out.add((phead, tuple(pbody)))
    for vals in product(domain, repeat=len(features)):
        out.add((START, (("v", (start, vals)),)))
    return sorted(out, key=repr), START


def strip_features(tprods):
    return [(h, tuple(("t", it[1]) if it[0] == "t" else ("v", it[1]) for it in body)) for h, _, body in tprods]
