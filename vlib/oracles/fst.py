"""O-FST: reference semantics of finite-state transducers, written from the definitions.

A reference transducer is a `Ref`: plain sets over arbitrary hashable state labels and a list of
transitions `(q, a, q2, outs)` where `a` is an input symbol or `None` for an epsilon-input move and
`outs` is the tuple of output symbols the move writes.

The relation of a transducer is  { (w, o) : some path from a start state to a final state reads w
and writes o }.  It is computed by exploring configurations (state, input position, output written so
far); configurations are memoised, which is what cuts output-free epsilon cycles. An epsilon cycle that
writes something makes the image of an input infinite; the property excludes those transducers
(`eps_cycles_write_nothing`), and every function below that could otherwise diverge takes an explicit
output-length bound and stays exact within it.

Nothing here imports pyformlang; `extract` reads a pyformlang FST only through the public observation
points the property names (`states`, `start_states`, `final_states`, `transitions`).
"""
from itertools import product

EPS_MARK = "epsilon"     # the library's public spelling of an epsilon input in add_transition


class Ref:
    def __init__(self, states=(), starts=(), finals=(), trans=()):
        self.states = set(states)
        self.starts = set(starts)
        self.finals = set(finals)
        self.trans = []
        for q, a, q2, outs in trans:
            self.add(q, a, q2, outs)
        self.states |= self.starts | self.finals

    def add(self, q, a, q2, outs):
        self.states.add(q)
        self.states.add(q2)
        self.trans.append((q, a, q2, tuple(outs)))

    def by_source(self):
        idx = {}
        for q, a, q2, outs in self.trans:
            idx.setdefault(q, []).append((a, q2, outs))
        return idx

    def describe(self):
        return {"states": sorted(map(repr, self.states)), "starts": sorted(map(repr, self.starts)),
                "finals": sorted(map(repr, self.finals)),
                "trans": sorted((repr(q), repr(a), repr(q2), list(map(repr, o))) for q, a, q2, o in self.trans)}


def extract(fst):
    """Read a pyformlang FST through its public observation points only."""
    r = Ref()
    for s in fst.states:
        r.states.add(s)
    for s in fst.start_states:
        r.starts.add(s)
        r.states.add(s)
    for s in fst.final_states:
        r.finals.add(s)
        r.states.add(s)
    for head, targets in fst.transitions.items():
        q, a = head
        for q2, outs in targets:
            r.add(q, None if (isinstance(a, str) and a == EPS_MARK) else a, q2, tuple(outs))
    return r


# ----------------------------------------------------------------------------------------
# validity predicate of the property: epsilon cycles write nothing

def _eps_reach(ref, src):
    """States reachable from src by >= 0 epsilon-input moves."""
    idx = ref.by_source()
    seen = {src}
    todo = [src]
    while todo:
        q = todo.pop()
        for a, q2, _ in idx.get(q, ()):
            if a is None and q2 not in seen:
                seen.add(q2)
                todo.append(q2)
    return seen


def eps_cycles_write_nothing(ref):
    """True iff no cycle made of epsilon-input moves only contains a move with a non-empty output."""
    for q, a, q2, outs in ref.trans:
        if a is None and len(outs) > 0 and q in _eps_reach(ref, q2):
            return False
    return True


def has_eps_cycle(ref):
    for q, a, q2, _ in ref.trans:
        if a is None and q in _eps_reach(ref, q2):
            return True
    return False


# ----------------------------------------------------------------------------------------
# run semantics

def can_finish(ref, q, rest):
    """Outputs ignored: is there a path from q to a final state reading exactly `rest`?"""
    idx = ref.by_source()

    def close(S):
        seen = set(S)
        todo = list(S)
        while todo:
            p = todo.pop()
            for a, p2, _ in idx.get(p, ()):
                if a is None and p2 not in seen:
                    seen.add(p2)
                    todo.append(p2)
        return seen

    cur = close({q})
    for sym in rest:
        nxt = set()
        for p in cur:
            for a, p2, _ in idx.get(p, ()):
                if a is not None and a == sym:
                    nxt.add(p2)
        cur = close(nxt)
    return any(p in ref.finals for p in cur)


def image(ref, word, max_out=None):
    """(outs, overflow).  outs = { o : (word, o) in the relation and (max_out is None or len(o) <= max_out) }.
    overflow = some output prefix longer than max_out that can still be completed to an accepted pair
    (i.e. the relation has an output longer than max_out for this input), or None.
    max_out=None requires eps_cycles_write_nothing(ref) (otherwise the image may be infinite)."""
    word = tuple(word)
    if max_out is None and not eps_cycles_write_nothing(ref):
        raise ValueError("image() without an output bound on a transducer whose epsilon cycles write")
    idx = ref.by_source()
    seen = set()
    todo = [(q, 0, ()) for q in ref.starts]
    outs = set()
    overflow = None
    while todo:
        cfg = todo.pop()
        if cfg in seen:
            continue
        seen.add(cfg)
        q, i, o = cfg
        if i == len(word) and q in ref.finals:
            outs.add(o)
        for a, q2, out in idx.get(q, ()):
            if a is None:
                ni = i
            elif i < len(word) and word[i] == a:
                ni = i + 1
            else:
                continue
            no = o + out
            if max_out is not None and len(no) > max_out:
                if overflow is None and can_finish(ref, q2, word[ni:]):
                    overflow = no
                continue
            todo.append((q2, ni, no))
    return outs, overflow


def words_upto(L, alphabet):
    out = []
    for n in range(L + 1):
        for w in product(tuple(alphabet), repeat=n):
            out.append(tuple(w))
    return out


def relation(ref, L, alphabet, max_out=None):
    """{ (w, o) } for every input w over `alphabet` with len(w) <= L (outputs of length <= max_out
    when a bound is given)."""
    rel = set()
    for w in words_upto(L, alphabet):
        outs, _ = image(ref, w, max_out)
        for o in outs:
            rel.add((w, o))
    return rel


def image_of(rel, word):
    word = tuple(word)
    return {o for (w, o) in rel if w == word}


# ----------------------------------------------------------------------------------------
# the three rational operations, directly on relations (truncated at input length L)

def rel_union(r1, r2):
    return set(r1) | set(r2)


def rel_concat(r1, r2, L, max_out=None):
    out = set()
    for (u1, o1) in r1:
        for (u2, o2) in r2:
            if len(u1) + len(u2) <= L and (max_out is None or len(o1) + len(o2) <= max_out):
                out.add((u1 + u2, o1 + o2))
    return out


def star_is_finite(rel):
    """R* restricted to bounded inputs is finite iff R relates the empty input to no non-empty output."""
    return not any(len(u) == 0 and len(o) > 0 for (u, o) in rel)


def rel_star(rel, L, max_out=None):
    """{ (w, o) in R* : len(w) <= L (and len(o) <= max_out) }, exact: a product within the bounds has all
    its prefixes within the bounds, so the truncated fixpoint loses nothing. `rel` must hold every pair
    of R within the same bounds. max_out=None requires star_is_finite(rel)."""
    if max_out is None and not star_is_finite(rel):
        raise ValueError("rel_star() without an output bound on an infinite star")
    rel = set(rel)
    res = {((), ())}
    frontier = set(res)
    while frontier:
        new = set()
        for (u, o) in frontier:
            for (u2, o2) in rel:
                if len(u) + len(u2) > L:
                    continue
                if max_out is not None and len(o) + len(o2) > max_out:
                    continue
                p = (u + u2, o + o2)
                if p not in res:
                    res.add(p)
                    new.add(p)
        frontier = new
    return res


# ----------------------------------------------------------------------------------------
# textbook constructions on reference transducers (a second, structural definition: used to
# cross-validate the relational one, and to build the model of a *known* defect for tagging)

def _tagged(ref, tag):
    return Ref(states={(tag, q) for q in ref.states}, starts={(tag, q) for q in ref.starts},
               finals={(tag, q) for q in ref.finals},
               trans=[((tag, q), a, (tag, q2), o) for q, a, q2, o in ref.trans])


def ref_union(r1, r2):
    a, b = _tagged(r1, 0), _tagged(r2, 1)
    return Ref(states=a.states | b.states, starts=a.starts | b.starts, finals=a.finals | b.finals,
               trans=a.trans + b.trans)


def ref_concat(r1, r2):
    a, b = _tagged(r1, 0), _tagged(r2, 1)
    out = Ref(states=a.states | b.states, starts=a.starts, finals=b.finals, trans=a.trans + b.trans)
    for f in a.finals:
        for s in b.starts:
            out.add(f, None, s, ())
    return out


def ref_star(r):
    a = _tagged(r, 0)
    new = ("new",)
    out = Ref(states=a.states | {new}, starts={new}, finals={new}, trans=a.trans)
    for s in a.starts:
        out.add(new, None, s, ())
    for f in a.finals:
        out.add(f, None, new, ())
    return out


def bridged_star_model(r):
    """NOT the Kleene star: the operand plus output-free epsilon bridges final->start and start->final,
    start and final sets unchanged. A run of this transducer may enter an iteration at a final state and
    leave one at a start state, and the empty pair is missing when there is no start or no final state.
    Only used to *tag* failures of kleene_star that are exactly this known construction."""
    out = Ref(states=r.states, starts=r.starts, finals=r.finals, trans=list(r.trans))
    for f in r.finals:
        for s in r.starts:
            out.add(f, None, s, ())
            out.add(s, None, f, ())
    return out


def erase_token(r, token):
    """The same transducer with every occurrence of `token` removed from the outputs."""
    return Ref(states=r.states, starts=r.starts, finals=r.finals,
               trans=[(q, a, q2, tuple(x for x in o if not (isinstance(x, str) and x == token)))
                      for q, a, q2, o in r.trans])


# ----------------------------------------------------------------------------------------
# comparison of a wanted relation with a transducer structure / with observed translations

def compare_structure(want, got_ref, words, out_cap=None):
    """Discrepancies between `want` (a set of pairs, complete for the inputs in `words`; restricted to
    outputs of length <= out_cap when out_cap is given) and the relation of got_ref. Exact, always
    terminates: without out_cap the exploration of got_ref is cut just above the longest wanted output of
    each input and an accepted longer output is reported as `overflow`."""
    diffs = []
    for w in words:
        w = tuple(w)
        ws = image_of(want, w)
        if out_cap is None:
            cap = max([len(o) for o in ws] + [0])
            outs, over = image(got_ref, w, cap)
        else:
            outs, over = image(got_ref, w, out_cap)
            over = None
        if outs != ws or over is not None:
            diffs.append({"input": list(w), "missing": sorted(map(list, ws - outs), key=repr),
                          "spurious": sorted(map(list, outs - ws), key=repr),
                          "overflow": None if over is None else list(over)})
    return diffs


def same_relation(ref_a, ref_b, words, out_cap):
    """Do two structures have the same relation on `words`, outputs up to out_cap?"""
    for w in words:
        a, _ = image(ref_a, w, out_cap)
        b, _ = image(ref_b, w, out_cap)
        if a != b:
            return False
    return True


def compare_translations(want, observed):
    """observed: list of (word, list of yielded outputs). 'each at least once and nothing else':
    duplicates are allowed, the *set* must be the wanted image."""
    diffs = []
    for w, outs in observed:
        w = tuple(w)
        ws = image_of(want, w)
        got = {tuple(o) for o in outs}
        if got != ws:
            diffs.append({"input": list(w), "missing": sorted(map(list, ws - got), key=repr),
                          "spurious": sorted(map(list, got - ws), key=repr)})
    return diffs


# ----------------------------------------------------------------------------------------
# oracle validation (`vf selfcheck`, once "vlib.oracles.fst" is listed in vlib/selfcheck.py): the
# transducers and the expected translations literally asserted in pyformlang/fst/tests/test_fst.py and
# finite_automaton/tests/test_epsilon_nfa.py::test_to_fst, pushed through this reference semantics.

def _expect(ref, word, outs, max_out=None):
    got, _ = image(ref, word, max_out)
    want = {tuple(o) for o in outs}
    if got != want:
        raise AssertionError("image(%r) = %r, the repository's test expects %r" % (word, got, want))


def _fst0():
    return Ref(starts=["q0"], finals=["q1"], trans=[("q0", "a", "q1", ("b",))])


def _fst1():
    return Ref(starts=["q1"], finals=["q2"], trans=[("q1", "b", "q2", ("c",))])


def check_translate():
    r = Ref(starts=["q0"])
    _expect(r, ["a"], [])
    r.add("q0", "a", "q1", ("b",))
    _expect(r, ["a"], [])
    r.finals.add("q1")
    _expect(r, ["a"], [["b"]])
    r.add("q1", None, "q1", ("c",))
    assert not eps_cycles_write_nothing(r)
    _expect(r, ["a"], [["b"] + ["c"] * k for k in range(10)], max_out=10)


def check_union():
    a, b = relation(_fst0(), 2, "ab"), relation(_fst1(), 2, "ab")
    u = rel_union(a, b)
    assert image_of(u, ("a",)) == {("b",)} and image_of(u, ("b",)) == {("c",)} and not image_of(u, ("a", "b"))
    assert relation(ref_union(_fst0(), _fst1()), 2, "ab") == u


def check_concatenate():
    a, b = relation(_fst0(), 3, "ab"), relation(_fst1(), 3, "ab")
    c = rel_concat(a, b, 3)
    assert image_of(c, ("a", "b")) == {("b", "c")} and not image_of(c, ("a",)) and not image_of(c, ("b",))
    cc = rel_concat(c, b, 3)
    assert image_of(cc, ("a", "b", "b")) == {("b", "c", "c")} and not image_of(cc, ("a",))
    assert relation(ref_concat(_fst0(), _fst1()), 3, "ab") == c


def check_kleene_star():
    s = rel_star(relation(_fst0(), 2, "a"), 2)
    assert image_of(s, ("a",)) == {("b",)} and image_of(s, ("a", "a")) == {("b", "b")} and image_of(s, ()) == {()}
    assert relation(ref_star(_fst0()), 2, "a") == s


def check_epsilon_loops():
    r = Ref(starts=["q0"], finals=["q1"], trans=[("q0", None, "q1", ()), ("q1", None, "q0", ())])
    assert eps_cycles_write_nothing(r)
    _expect(r, [], [[]])
    r = Ref(starts=["q0"], finals=["q2"], trans=[("q0", None, "q1", ()), ("q1", "a", "q2", ("b",)),
                                                   ("q1", None, "q0", ())])
    _expect(r, ["a"], [["b"]])


def check_paper():
    r = Ref(starts=[0], finals=[3], trans=[(0, "I", 1, ("Je",)), (1, "am", 2, ("suis",)),
                                            (2, "alone", 3, ("tout", "seul")), (2, "alone", 3, ("seul",))])
    _expect(r, ["I", "am", "alone"], [["Je", "suis", "seul"], ["Je", "suis", "tout", "seul"]])


def check_to_fst_identity():
    # test_to_fst (without its epsilon transition): q0 -a-> qfinal -b-> qfinal, q0 -c-> qfinalbis
    r = Ref(starts=["q0", "q0bis"], finals=["qfinal", "qfinalbis"],
            trans=[("q0", "a", "qfinal", ("a",)), ("qfinal", "b", "qfinal", ("b",)), ("q0", "c", "qfinalbis", ("c",))])
    _expect(r, ["a"], [["a"]])
    _expect(r, ["a", "b", "b"], [["a", "b", "b"]])
    _expect(r, ["b", "b"], [])
