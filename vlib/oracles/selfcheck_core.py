"""Oracle validation (DESIGN 2.4) — only the `check_*` functions run inside a check: they involve the
oracles alone, so a broken library can never turn into a "harness error". The `library_*` functions (oracle vs
library on the same fixtures) are developer aids.

Oracle validation: fixtures and expected answers literally asserted in pyformlang's own
tests (pyformlang/*/tests) are pushed through the oracles; a disagreement is a harness error (exit 2)."""
from vlib.oracles import nfa as O, rx as RX, cfg as OC, pda as OP

# (regex text, word, expected) from regular_expression/tests/test_regex.py::test_to_enfa0/1, test_accepts ...
RX_FIX = [
    ("a|b", ["a"], True), ("a|b", ["b"], True), ("a|b", ["c"], False), ("a|b", ["a", "b"], False),
    ("a b", ["a"], False), ("a b", ["a", "b"], True), ("a b c", ["a", "b", "c"], True),
    ("a b c", ["a", "b", "a"], False), ("(a b)|c", ["a", "b"], True), ("(a b)|c", ["a", "c"], False),
    ("(a b)|c", ["c"], True), ("a*", [], True), ("a*", ["a", "a", "a"], True), ("a**", ["a", "a"], True),
    ("a*b|c", ["a", "a", "b"], True), ("a*b|c", ["c"], True), ("a*b|c", ["a", "a", "c"], False),
    ("a*(b|c)", ["a", "a", "b"], True), ("a*(b|c)", ["b"], True), ("a*(b|c)", ["a", "a", "c"], True),
    ("a*.(b|c)", ["a", "a", "c"], True), ("a*.(b|c)epsilon", ["b"], True), ("$", [], True), ("$", ["a"], False),
    ("abc|d", ["abc"], True), ("abc|d", ["a", "b", "c"], False), ("abc|d", ["d"], True),
    ("a+b", ["a"], True), ("a+b", ["a", "b"], False), ("a b|c d", ["c", "d"], True), ("a (b|c) d", ["a", "c", "d"], True),
    ("\\|", ["|"], True), ("a \\* b", ["a", "*", "b"], True), ("(a|b)*", ["a", "b", "b", "a"], True),
]
RX_ILL = [")a b()", "(a b()", "(a b))", "| a b"]          # test_misformed


def check_rx_fixtures():
    for text, word, want in RX_FIX:
        cls = RX.classify(text)
        assert cls[0] == "wf", (text, cls)
        assert O.accepts(RX.to_ref(cls[1]), word) == want, (text, word, want)
    for text in RX_ILL:
        assert RX.classify(text)[0] == "ill", text


def library_rx_against_fixtures():
    from pyformlang.regular_expression import Regex
    for text, word, want in RX_FIX:
        assert Regex(text).accepts(word) == want, ("library disagrees with its own test", text, word)


# finite_automaton/tests: small automata with asserted answers
def _enfa_doc():
    # test_epsilon_nfa: 0 -eps-> 1, 1 -a-> 2 ... use the docstring example: (0,'abc',1),(0,'d',1),(0,eps,2)
    return enc_ref([(0, "abc", 1), (0, "d", 1), (0, None, 2)], [0], [1])


def enc_ref(edges, starts, finals):
    r = O.Ref(starts=starts, finals=finals)
    for q, a, t in edges:
        if a is None:
            r.add_eps(q, t)
        else:
            r.add(q, a, t)
    return r


def check_nfa_fixtures():
    r = _enfa_doc()
    assert O.accepts(r, ["abc"]) and not O.accepts(r, []) and not O.is_deterministic_def(r)
    assert O.eclose(r, {0}) == frozenset({0, 2})
    assert not O.is_empty(r) and not O.has_reachable_cycle(r)
    comp = O.complement(r)
    assert O.accepts(comp, []) and not O.accepts(comp, ["abc"])      # docstring of get_complement
    # test_deterministic_finite_automaton::test_word_generation style: 0-a->1-b->2(final), 1-c->1
    d = enc_ref([(0, "a", 1), (1, "b", 2), (1, "c", 1)], [0], [2])
    assert O.words_upto(d, 3) == {("a", "b"), ("a", "c", "b")}
    assert O.has_reachable_cycle(d) and not O.language_finite(d)
    # equivalence: a(b|c) two ways
    x = enc_ref([(0, "a", 1), (1, "b", 2), (1, "c", 2)], [0], [2])
    y = enc_ref([(0, "a", 1), (0, "a", 3), (1, "b", 2), (3, "c", 2)], [0], [2])
    assert O.equivalent(x, y)[0] and not O.equivalent(x, d)[0]
    assert O.equivalent(O.reverse(x), enc_ref([(2, "b", 1), (2, "c", 1), (1, "a", 0)], [2], [0]))[0]
    # minimal shape: two equivalent states are found indistinguishable
    z = enc_ref([(0, "a", 1), (0, "b", 2), (1, "c", 3), (2, "c", 3)], [0], [3])
    assert (1, 2) in O.indistinguishable_pairs(z) or (2, 1) in O.indistinguishable_pairs(z)


def library_nfa_against_oracle():
    from pyformlang.finite_automaton import EpsilonNFA
    e = EpsilonNFA()
    e.add_transitions([(0, "abc", 1), (0, "d", 1), (0, "epsilon", 2)])
    e.add_start_state(0)
    e.add_final_state(1)
    r = O.extract(e)
    for w in ([], ["abc"], ["d"], ["abc", "d"], ["x"]):
        assert e.accepts(w) == O.accepts(r, w), w
    assert O.equivalent(r, O.extract(e.to_deterministic()))[0]


# cfg/tests/test_cfg.py: membership fixtures
def check_cfg_fixtures():
    V, T = OC.V, OC.T
    # test_membership: S -> a S b | eps  (as in the CYK tests, with several variants)
    g = OC.G("S", [("S", (T("a"), V("S"), T("b"))), ("S", ())])
    assert OC.contains(g, []) and OC.contains(g, ["a", "b"]) and OC.contains(g, ["a", "a", "b", "b"])
    assert not OC.contains(g, ["a", "b", "b"]) and not OC.is_finite(g) and not OC.is_empty(g)
    assert OC.nullable_vars(g) == {"S"} and OC.generating_vars(g) == {"S"}
    # test_finite: S -> A B, A -> a, B -> b  finite; with A -> A a infinite
    g2 = OC.G("S", [("S", (V("A"), V("B"))), ("A", (T("a"),)), ("B", (T("b"),))])
    assert OC.is_finite(g2) and OC.words_upto(g2, 4) == {("a", "b")}
    g3 = OC.G("S", [("S", (V("A"), V("B"))), ("A", (V("A"), T("a"))), ("A", (T("a"),)), ("B", (T("b"),))])
    assert not OC.is_finite(g3)
    # useless symbols: C unreachable, D non generating
    g4 = OC.G("S", [("S", (T("a"),)), ("C", (T("c"),)), ("S", (V("D"),)), ("D", (V("D"),))])
    assert ("V", "C") in OC.useless_symbols_present(g4) and ("V", "D") in OC.useless_symbols_present(g4)
    # test_llone_parser::test_get_first_set: E -> T E', E' -> + T E' | eps, T -> F T', T' -> * F T' | eps, F -> ( E ) | id
    ll = OC.G("E", [("E", (V("T"), V("E'"))), ("E'", (T("+"), V("T"), V("E'"))), ("E'", ()),
                    ("T", (V("F"), V("T'"))), ("T'", (T("*"), V("F"), V("T'"))), ("T'", ()),
                    ("F", (T("("), V("E"), T(")"))), ("F", (T("id"),))])
    fs = OC.first_sets(ll)
    assert fs["E"] == {"(", "id"} and fs["E'"] == {"+", OC.EPS} and fs["T'"] == {"*", OC.EPS}
    fo = OC.follow_sets(ll)
    assert fo["E"] == {")", OC.END} and fo["T"] == {"+", ")", OC.END} and fo["F"] == {"+", "*", ")", OC.END}
    assert OC.is_ll1(ll)


def library_cfg_against_oracle():
    from pyformlang.cfg import CFG
    g = CFG.from_text("S -> a S b | epsilon\n")
    ref = OC.extract(g)
    for w in ([], ["a", "b"], ["a", "a", "b", "b"], ["a"], ["b", "a"]):
        assert g.contains(w) == OC.contains(ref, w), w


# pda/tests/test_pda.py::test_example62 (Hopcroft 6.2: 0^n 1^n / wwr style) — use a^n b^n
def check_pda_fixtures():
    r = OP.RefPDA(["q", "p", "r"], "q", "Z", ["r"], [
        ("q", "a", "Z", "q", ("X", "Z")), ("q", "a", "X", "q", ("X", "X")),
        ("q", "b", "X", "p", ()), ("p", "b", "X", "p", ()), ("p", None, "Z", "r", ())])
    lf = OP.lang_final_state(r, 4)
    le = OP.lang_empty_stack(r, 4)
    assert lf == {("a", "b"), ("a", "a", "b", "b")} and le == lf


def library_pda_against_oracle():
    from pyformlang.cfg import CFG
    g = CFG.from_text("S -> a S b | a b\n")
    pda = g.to_pda()
    assert OP.lang_empty_stack(OP.extract(pda), 4) == OC.words_upto(OC.extract(g), 4)
