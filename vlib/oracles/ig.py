"""O-IG: reference semantics of reduced-form indexed grammars (Aho), written from the definition.

Rules are plain tuples
    ("end",  A, a)        A[s]    => a            (any stack s; the terminal "epsilon" is the empty word)
    ("prod", A, B, f)     A[s]    => B[f s]
    ("cons", f, A, B)     A[f s]  => B[s]
    ("dup",  A, B, C)     A[s]    => B[s] C[s]
The language is the set of terminal words derivable from start[empty stack].

Emptiness is decided exactly (no bound on stack depth or word length):

    Gen(s) = { A : A[s] derives some terminal word }                    ("profile" of the stack s)

    Gen(f s) depends on s only through Gen(s):  Gen(f s) = H(f, Gen(s)), where H is the least table
    (pointwise) such that Y = H(f, X) contains
        A  for every end rule of A,
        A  for every dup rule A -> B C with B, C in Y,
        A  for every cons rule (f, A, B) with B in X,
        A  for every prod rule A -> B[g] with B in H(g, Y).
    The empty stack behaves like a bottom marker that no rule consumes: Gen(empty) = H(BOTTOM, {}).

    H lives on the finite domain  symbols x P(N); it is computed demand-driven from the root entry
    (BOTTOM, {}) by chaotic iteration (values only grow) until the part of the table reachable from the
    root is stable.  `gen_profile_full` is the plain Kleene iteration over the whole table, kept as a
    cross-check for small grammars; `words_bounded` is a bounded evaluation of the derivation relation
    itself (stack depth and word length capped) used to validate both (`python -m vlib.oracles.ig`).

Nothing here shares code with pyformlang; `extract` reads a library grammar only through the public
observation points the property names (the rules of the grammar, its start variable).
"""
from itertools import combinations, product as _iproduct

from vlib.oracles import nfa as _nfa

BOTTOM = ("<bottom>",)
EPS = "epsilon"


# ----------------------------------------------------------------------------------------
# indexing

class _Idx:
    def __init__(self, rules):
        self.ends = set()
        self.end_words = {}      # A -> set of terminals
        self.dups = []
        self.prods = []
        self.cons = {}           # f -> list of (A, B)
        self.nts = set()
        self.pushed = []
        for r in rules:
            k = r[0]
            if k == "end":
                self.ends.add(r[1])
                self.end_words.setdefault(r[1], set()).add(r[2])
                self.nts.add(r[1])
            elif k == "dup":
                self.dups.append((r[1], r[2], r[3]))
                self.nts.update(r[1:4])
            elif k == "prod":
                self.prods.append((r[1], r[2], r[3]))
                self.nts.update(r[1:3])
                if r[3] not in self.pushed:
                    self.pushed.append(r[3])
            elif k == "cons":
                self.cons.setdefault(r[1], []).append((r[2], r[3]))
                self.nts.update(r[2:4])
            else:
                raise ValueError("unknown rule kind %r" % (k,))


# ----------------------------------------------------------------------------------------
# exact emptiness

def gen_table(rules):
    """The stable part of the table H reachable from (BOTTOM, {}), as a dict (f, X) -> frozenset."""
    ix = rules if isinstance(rules, _Idx) else _Idx(rules)
    table = {}
    root = (BOTTOM, frozenset())
    while True:
        changed = False
        seen = set()
        todo = [root]
        while todo:
            entry = todo.pop()
            if entry in seen:
                continue
            seen.add(entry)
            f, tail = entry
            cur = set(table.get(entry, ()))
            cur |= ix.ends
            for (a, b) in ix.cons.get(f, ()):
                if b in tail:
                    cur.add(a)
            grew = True
            while grew:
                grew = False
                for (a, b, c) in ix.dups:
                    if a not in cur and b in cur and c in cur:
                        cur.add(a)
                        grew = True
                frozen = frozenset(cur)
                for (a, b, g) in ix.prods:
                    if a not in cur and b in table.get((g, frozen), ()):
                        cur.add(a)
                        grew = True
            frozen = frozenset(cur)
            if table.get(entry) != frozen:      # a new entry or a grown value: one more round
                table[entry] = frozen
                changed = True
            for g in ix.pushed:
                todo.append((g, frozen))
        if not changed:
            return {e: table[e] for e in seen}


def gen_profile(rules):
    """Gen(empty stack): the nonterminals that derive a terminal word from an empty stack."""
    return gen_table(rules)[(BOTTOM, frozenset())]


def gen_profile_full(rules):
    """Same as gen_profile by Kleene iteration over the whole table symbols x P(N) (small N only)."""
    ix = _Idx(rules)
    nts = sorted(ix.nts, key=repr)
    subsets = [frozenset(c) for k in range(len(nts) + 1) for c in combinations(nts, k)]
    syms = [BOTTOM] + list(ix.pushed)
    table = {(f, x): frozenset() for f in syms for x in subsets}
    while True:
        new = {}
        for (f, x), y in table.items():
            cur = set(y) | ix.ends
            for (a, b) in ix.cons.get(f, ()):
                if b in x:
                    cur.add(a)
            for (a, b, c) in ix.dups:
                if b in y and c in y:
                    cur.add(a)
            for (a, b, g) in ix.prods:
                if b in table[(g, y)]:
                    cur.add(a)
            new[(f, x)] = frozenset(cur)
        if new == table:
            return table[(BOTTOM, frozenset())]
        table = new


def is_empty(rules, start="S"):
    return start not in gen_profile(rules)


def generating_for_stack(rules, stack):
    """Gen(stack), stack written top first (tuple of index symbols)."""
    ix = _Idx(rules)
    # make sure every symbol of the stack has table rows: ask through a grammar that also pushes them
    extra = [("prod", ("<probe>",), ("<probe>",), f) for f in stack]
    table = gen_table(list(rules) + extra)
    prof = table[(BOTTOM, frozenset())]
    for f in reversed(stack):
        prof = table[(f, prof)]
    return frozenset(a for a in prof if a in ix.nts)


# ----------------------------------------------------------------------------------------
# product with a finite automaton (vlib.oracles.nfa.Ref, epsilon moves allowed)

def product_rules(rules, ref):
    """Rules over nonterminals (p, A, q): A[s] derives a word that takes the automaton from p to q."""
    states = sorted(ref.states, key=repr)
    ecl = {p: _nfa.eclose(ref, [p]) for p in states}
    out = []
    for r in rules:
        k = r[0]
        if k == "end":
            _, a, t = r
            for p in states:
                if t == EPS:
                    targets = ecl[p]
                else:
                    targets = _nfa.step(ref, ecl[p], t)
                for q in targets:
                    out.append(("end", (p, a, q), t))
        elif k == "dup":
            _, a, b, c = r
            for p, q, m in _iproduct(states, states, states):
                out.append(("dup", (p, a, q), (p, b, m), (m, c, q)))
        elif k == "prod":
            _, a, b, f = r
            for p, q in _iproduct(states, states):
                out.append(("prod", (p, a, q), (p, b, q), f))
        elif k == "cons":
            _, f, a, b = r
            for p, q in _iproduct(states, states):
                out.append(("cons", f, (p, a, q), (p, b, q)))
    return out


def intersection_is_empty(rules, ref, start="S"):
    """No word derivable from start[empty] is accepted by the automaton."""
    prof = gen_profile(product_rules(rules, ref))
    for p in ref.starts:
        for q in ref.finals:
            if (p, start, q) in prof:
                return False
    return True


# ----------------------------------------------------------------------------------------
# bounded evaluation of the derivation relation (validator; proves non-emptiness only)

def words_bounded(rules, start="S", depth=5, maxlen=6, rounds=200):
    """Words (tuples of terminals) of length <= maxlen derivable from start[empty] by derivations whose
    stacks never exceed `depth`. Least fixpoint of the derivation relation on that finite domain;
    returns (words, stable) where stable tells the fixpoint was reached within `rounds`."""
    ix = _Idx(rules)
    stacks = [()]
    for d in range(depth):
        stacks += [(f,) + s for s in stacks if len(s) == d for f in ix.pushed]
    w = {}
    for s in stacks:
        for a, ts in ix.end_words.items():
            w[(a, s)] = {() if t == EPS else (t,) for t in ts}
    stable = False
    for _ in range(rounds):
        grew = False

        def add(key, words):
            nonlocal grew
            cur = w.setdefault(key, set())
            for x in words:
                if len(x) <= maxlen and x not in cur:
                    cur.add(x)
                    grew = True
        for s in stacks:
            for (a, b, c) in ix.dups:
                wb, wc = w.get((b, s)), w.get((c, s))
                if wb and wc:
                    add((a, s), [x + y for x in wb for y in wc if len(x) + len(y) <= maxlen])
            for (a, b, f) in ix.prods:
                if len(s) < depth:
                    wb = w.get((b, (f,) + s))
                    if wb:
                        add((a, s), list(wb))
            if s:
                for (a, b) in ix.cons.get(s[0], ()):
                    wb = w.get((b, s[1:]))
                    if wb:
                        add((a, s), list(wb))
        if not grew:
            stable = True
            break
    return set(w.get((start, ()), ())), stable


# ----------------------------------------------------------------------------------------
# observation of a library grammar

def extract(grammar):
    """(rules, start) of a pyformlang IndexedGrammar, read through `grammar.rules.rules`,
    `grammar.rules.consumption_rules` and `grammar.start_variable`. Terminals that are not hashable
    (the library's intersection writes lists) are turned into tuples; a one-element list/tuple whose
    element is "epsilon" and the empty list are the empty word."""
    out = []
    for r in grammar.rules.rules:
        if r.is_end_rule():
            out.append(("end", r.left_term, _terminal(r.right_term)))
        elif r.is_production():
            out.append(("prod", r.left_term, r.right_term, r.production))
        elif r.is_duplication():
            out.append(("dup", r.left_term, r.right_terms[0], r.right_terms[1]))
        elif r.is_consumption():
            out.append(("cons", r.f_parameter, r.left_term, r.right))
        else:
            raise ValueError("rule of no kind: %r" % (r,))
    for f, rs in grammar.rules.consumption_rules.items():
        for r in rs:
            out.append(("cons", r.f_parameter, r.left_term, r.right))
    return out, grammar.start_variable


def _terminal(t):
    if isinstance(t, (list, tuple)):
        t = tuple(x for x in t if x != EPS)
        if not t:
            return EPS
        return t[0] if len(t) == 1 else t
    return t


# ----------------------------------------------------------------------------------------
# validation of the oracle itself: `python -m vlib.oracles.ig [n]` (also usable by vf selfcheck)

def _random_grammar(rng, nts, idxs, terms, nrules):
    rules = []
    for _ in range(nrules):
        k = rng.choice(["end", "prod", "cons", "dup", "prod", "cons"])
        if k == "end":
            rules.append(("end", rng.choice(nts), rng.choice(terms)))
        elif k == "prod":
            rules.append(("prod", rng.choice(nts), rng.choice(nts), rng.choice(idxs)))
        elif k == "cons":
            rules.append(("cons", rng.choice(idxs), rng.choice(nts), rng.choice(nts)))
        else:
            rules.append(("dup", rng.choice(nts), rng.choice(nts), rng.choice(nts)))
    return rules


def _random_ref(rng, n, alphabet, eps=False):
    ref = _nfa.Ref(states=range(n), alphabet=alphabet)
    for p in range(n):
        for a in alphabet:
            if rng.random() < 0.6:
                ref.add(p, a, rng.randrange(n))
        if eps and rng.random() < 0.3:
            ref.add_eps(p, rng.randrange(n))
    ref.starts = {0} if rng.random() < 0.9 else set()
    ref.finals = {q for q in range(n) if rng.random() < 0.5}
    return ref


def validate(n=600, seed=1, verbose=False):
    """Cross-checks on random small grammars; returns the list of disagreements (empty = fine)."""
    import random
    rng = random.Random(seed)
    bad = []
    nonempty = 0
    for i in range(n):
        nts = ["S", "A", "B"][:rng.choice([2, 3, 3])]
        idxs = ["f", "g"][:rng.choice([1, 2])]
        terms = rng.choice([["a"], ["a", "b"], ["a", EPS]])
        rules = _random_grammar(rng, nts, idxs, terms, rng.randint(1, 6))
        prof = gen_profile(rules)
        full = gen_profile_full(rules)
        if prof != full:
            bad.append(("demand-driven != full table", rules, sorted(prof), sorted(full)))
        words, stable = words_bounded(rules, "S", depth=6, maxlen=6)
        oracle_nonempty = "S" in prof
        nonempty += oracle_nonempty
        if words and not oracle_nonempty:
            bad.append(("bounded search derives a word, oracle says empty", rules, sorted(words)[:3]))
        if oracle_nonempty and not words:
            bad.append(("oracle says non-empty, bounded search finds nothing", rules, stable))
        # product
        ref = _random_ref(rng, rng.choice([1, 2, 2, 3]), [t for t in terms if t != EPS], eps=rng.random() < 0.3)
        inter_empty = intersection_is_empty(rules, ref)
        accepted = [w for w in words if _nfa.accepts(ref, list(w))]
        if accepted and inter_empty:
            bad.append(("accepted derivable word, product oracle says empty", rules, ref.describe(),
                        sorted(accepted)[:3]))
        if not inter_empty and not accepted:
            bad.append(("product oracle says non-empty, no accepted word within bounds", rules,
                        ref.describe(), stable))
        if not inter_empty and not oracle_nonempty:
            bad.append(("product non-empty but grammar empty", rules))
    if verbose:
        print("validated %d random grammars (%d non-empty): %d disagreements" % (n, nonempty, len(bad)))
    return bad


def check_fixtures():
    """The grammars asserted in pyformlang/indexed_grammar/tests (transcribed), through the oracle."""
    def P(a, b, f): return ("prod", a, b, f)
    def C(f, a, b): return ("cons", f, a, b)
    def E(a, t): return ("end", a, t)
    def D(a, b, c): return ("dup", a, b, c)
    ex0 = [P("S", "Cinit", "end"), P("Cinit", "C", "b"), C("end", "C", "T"), E("T", EPS),
           C("b", "C", "B0"), D("B0", "A0", "C"), E("A0", "b")]
    assert not is_empty(ex0)
    tail = [C("b", "C", "B"), D("B", "A1", "D"), C("b", "A1", "A1"), C("bm", "A1", "A1"),
            C("c", "A1", "A1"), C("cm", "A1", "A1"), C("end", "A1", "Abackm2"),
            P("Abackm2", "Abackm1", "end"), P("Abackm1", "C", "cm"), D("D", "E0", "C"),
            D("E0", "F0", "E1"), D("E1", "F1", "E2"), E("E2", EPS), E("F0", "c"), E("F1", "b")]
    head = [P("S", "Cinit", "end"), P("Cinit", "C", "b"), C("end", "C", "T"), E("T", EPS)]
    cm = [C("cm", "C", "B0"), D("B0", "A0", "C"), E("A0", "cm")]
    assert not is_empty(head + cm + tail)                       # test_simple_ig_1
    assert is_empty(head + tail)                                # test_simple_ig_2
    assert is_empty(head + cm)                                  # test_simple_ig_3
    assert is_empty([head[0]] + head[2:] + cm + tail)           # test_simple_ig_4
    assert not is_empty([P("S", "A", "f"), C("f", "A", "B"), C("f", "C", "F"), P("B", "C", "f"),
                         P("D", "E", "f"), E("F", EPS), D("B0", "A0", "C")])   # test_simple_ig_5
    assert is_empty([D("S", "S", "B")]) and is_empty([D("S", "B", "S")])
    assert not is_empty([D("S", "A", "B"), E("A", "a"), E("B", "b")])
    assert not is_empty([P("S", "A", "end"), C("end", "A", "S"), D("A", "B", "C"), E("B", "b"),
                         E("C", "c")])                          # test_simple_ig7
    assert not is_empty([P("S", "Q", "end"), P("Q", "A", "end"), C("end", "A", "B"), C("end", "A", "C"),
                         C("end", "A", "D"), D("C", "G", "E"), D("E", "G", "F"), D("F", "G", "G"),
                         E("G", "G")])                          # test_simple_ig8
    anbncn = [P("S", "T", "g"), P("T", "T", "f"), D("T", "AB", "C"), D("AB", "A", "B"),
              C("f", "A", "A2"), C("f", "B", "B2"), C("f", "C", "C2"), D("A2", "Afinal", "A"),
              D("B2", "Bfinal", "B"), D("C2", "Cfinal", "C"), E("Afinal", "a"), E("Bfinal", "b"),
              E("Cfinal", "c"), C("g", "A", "Afinal"), C("g", "B", "Bfinal"), C("g", "C", "Cfinal")]
    assert not is_empty(anbncn)                                 # test_simple_ig9
    words, _ = words_bounded(anbncn, depth=4, maxlen=9)
    assert words == {("a",) * k + ("b",) * k + ("c",) * k for k in (1, 2, 3)}, words
    assert is_empty([E("S", "s")], "S2") and not is_empty([E("S", "s")], "S")
    inter = [P("S", "D", "f"), D("D", "A", "B"), C("f", "A", "Afinal"), C("f", "B", "Bfinal"),
             E("Afinal", "a"), E("Bfinal", "b")]
    ab = _nfa.Ref(starts=[0], finals=[2])
    ab.add(0, "a", 1)
    ab.add(1, "b", 2)
    assert not intersection_is_empty(inter, ab)                 # test_intersection
    ba = _nfa.Ref(starts=[0], finals=[2])
    ba.add(0, "b", 1)
    ba.add(1, "a", 2)
    assert intersection_is_empty(inter, ba)
    # a^n b^n c^n  &  a a b b c c  / a b b c
    w = _nfa.Ref(starts=[0], finals=[6])
    for i, t in enumerate("aabbcc"):
        w.add(i, t, i + 1)
    assert not intersection_is_empty(anbncn, w)
    w2 = _nfa.Ref(starts=[0], finals=[4])
    for i, t in enumerate("abbc"):
        w2.add(i, t, i + 1)
    assert intersection_is_empty(anbncn, w2)


def check_random():
    bad = validate(300, seed=7)
    assert not bad, bad[:2]


if __name__ == "__main__":
    import sys
    check_fixtures()
    print("fixtures ok")
    count = int(sys.argv[1]) if len(sys.argv) > 1 else 1000
    problems = validate(count, seed=int(sys.argv[2]) if len(sys.argv) > 2 else 1, verbose=True)
    for pb in problems[:10]:
        print(pb)
    sys.exit(1 if problems else 0)
