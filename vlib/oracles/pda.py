"""O-PDA: reference semantics of pushdown automata, exact for words of length <= L.

RefPDA: states, start, start_stack, finals, transitions = list of (p, a_or_None, X, q, push) with push
a tuple whose FIRST element ends up on top of the stack.

  S[(p, X, q)] = { w : (p, X) =>* (q, empty) reading w }                      (pops X completely)
  R[(p, X, q)] = { w : (p, X beta) =>* (q, gamma beta) reading w, any gamma } (never pops below X)

Both are least fixpoints restricted to |w| <= L (finite lattices -> exact, epsilon cycles that grow
the stack included).  Empty-stack language = U_q S[(start, Z0, q)];  final-state language = U_{f in F} R[(start, Z0, f)].
"""
import json


class RefPDA:
    def __init__(self, states, start, start_stack, finals, transitions):
        self.states = set(states)
        self.start = start
        self.start_stack = start_stack
        self.finals = set(finals)
        self.transitions = [(p, a, X, q, tuple(push)) for (p, a, X, q, push) in transitions]
        for p, a, X, q, push in self.transitions:
            self.states.add(p)
            self.states.add(q)
        if start is not None:
            self.states.add(start)
        self.states |= self.finals

    def stack_symbols(self):
        out = set()
        if self.start_stack is not None:
            out.add(self.start_stack)
        for p, a, X, q, push in self.transitions:
            out.add(X)
            out.update(push)
        return out

    def describe(self):
        return {"start": repr(self.start), "start_stack": repr(self.start_stack),
                "finals": sorted(map(repr, self.finals)),
                "transitions": sorted("%r,%r,%r -> %r,%r" % t for t in self.transitions)}


def extract(pda):
    """Through public observation points: states / start_state / final_states / to_dict();
    the start stack symbol through to_networkx() (it has no accessor)."""
    from pyformlang.pda import Epsilon
    trans = []
    for (p, a, X), outs in pda.to_dict().items():
        for (q, push) in outs:
            trans.append((p.value, None if isinstance(a, Epsilon) else a.value, X.value, q.value,
                          tuple(s.value for s in push if not isinstance(s, Epsilon))))
    start_stack = None
    graph = pda.to_networkx()
    if "INITIAL_STACK_HIDDEN" in graph.nodes:
        start_stack = json.loads(graph.nodes["INITIAL_STACK_HIDDEN"]["label"])
        if isinstance(start_stack, list):
            start_stack = _tuplify(start_stack)
    start = pda.start_state.value if pda.start_state is not None else None
    return RefPDA([s.value for s in pda.states], start, start_stack,
                  [s.value for s in pda.final_states], trans)


def _tuplify(x):
    return tuple(_tuplify(y) for y in x) if isinstance(x, list) else x


def _concat(a, b, L):
    return {u + v for u in a for v in b if len(u) + len(v) <= L}


def summaries(r, L):
    states = list(r.states)
    syms = list(r.stack_symbols())
    S = {(p, X, q): set() for p in states for X in syms for q in states}
    changed = True
    while changed:
        changed = False
        for (p, a, X, q0, push) in r.transitions:
            head = {(a,)} if a is not None else {()}
            if L == 0 and a is not None:
                continue
            # frontier: dict state -> set of words, after popping a prefix of push
            front = {q0: set(head)}
            for Y in push:
                nxt = {}
                for s, ws in front.items():
                    for t in states:
                        add = _concat(ws, S.get((s, Y, t), ()), L)
                        if add:
                            nxt.setdefault(t, set()).update(add)
                front = nxt
                if not front:
                    break
            for t, ws in front.items():
                key = (p, X, t)
                if key in S and not ws <= S[key]:
                    S[key] |= ws
                    changed = True
    return S


def reach(r, L, S=None):
    S = S if S is not None else summaries(r, L)
    states = list(r.states)
    syms = list(r.stack_symbols())
    R = {(p, X, q): ({()} if p == q else set()) for p in states for X in syms for q in states}
    changed = True
    while changed:
        changed = False
        for (p, a, X, q0, push) in r.transitions:
            if L == 0 and a is not None:
                continue
            head = {(a,)} if a is not None else {()}
            front = {q0: set(head)}
            # i symbols of push fully popped so far
            for i in range(len(push) + 1):
                if i == len(push):
                    # the whole push (hence X's level) is consumed: we are in state s with the level gone
                    for s, ws in front.items():
                        key = (p, X, s)
                        if not ws <= R[key]:
                            R[key] |= ws
                            changed = True
                    break
                Y = push[i]
                # stop inside Y: R(s, Y, q)
                for s, ws in front.items():
                    for q in states:
                        add = _concat(ws, R[(s, Y, q)], L)
                        key = (p, X, q)
                        if add and not add <= R[key]:
                            R[key] |= add
                            changed = True
                # or pop Y completely and go on
                nxt = {}
                for s, ws in front.items():
                    for t in states:
                        add = _concat(ws, S.get((s, Y, t), ()), L)
                        if add:
                            nxt.setdefault(t, set()).update(add)
                front = nxt
                if not front:
                    break
    return R


def lang_empty_stack(r, L):
    if r.start is None or r.start_stack is None:
        return set()
    S = summaries(r, L)
    out = set()
    for q in r.states:
        out |= S.get((r.start, r.start_stack, q), set())
    return out


def lang_final_state(r, L):
    if r.start is None or r.start_stack is None:
        return set()
    R = reach(r, L)
    out = set()
    for f in r.finals:
        out |= R.get((r.start, r.start_stack, f), set())
    return out
