"""O-TREES: validators for parse trees and derivations, written from the definitions.

A parse tree is observed through `.value` and `.sons` only and turned into plain data
    node = (sym, [node, ...])       sym = ("V", name) | ("T", name) | ("E", "epsilon") | ("?", repr)
A grammar is a `vlib.oracles.cfg.G` (start, prods with bodies of ("V"|"T", name) symbols); words are
sequences of terminal names. Nothing here shares code with pyformlang.

Representation of an epsilon subtree: pyformlang's `Production` drops `Epsilon` objects from bodies, so
every parser builds the application of `X -> epsilon` as a node labelled X **without sons**
(`ParseTree.get_*_derivation` documents the same reading: a son-less Variable is listed as `[X]`, `[]`).
Both that representation and an explicit epsilon leaf under X are accepted here: the children sequence
of an inner node, with epsilon leaves dropped, must be the body of a production of its label.
"""

MAX_NODES = 400


def symbol_of(value):
    """Plain symbol of a node label / sentential-form entry (pyformlang Variable, Terminal, Epsilon)."""
    from pyformlang.cfg import Variable, Terminal
    from pyformlang.cfg.epsilon import Epsilon
    if isinstance(value, Epsilon):
        return ("E", "epsilon")
    if isinstance(value, Variable):
        return ("V", value.value)
    if isinstance(value, Terminal):
        return ("T", value.value)
    return ("?", repr(value))


class NotATree(Exception):
    """The object reached through .sons is cyclic or absurdly large."""


def tree_to_plain(tree):
    """Plain (sym, [children]) copy of a ParseTree, read through .value / .sons only.
    Raises NotATree when a node is its own descendant or more than MAX_NODES nodes are met
    (a parse tree of a word of length <= 3 in these grammars is far smaller)."""
    budget = [MAX_NODES]

    def rec(node, path):
        if id(node) in path:
            raise NotATree("a node is its own descendant (cyclic .sons)")
        budget[0] -= 1
        if budget[0] < 0:
            raise NotATree("more than %d nodes" % MAX_NODES)
        path.add(id(node))
        kids = [rec(son, path) for son in list(node.sons)]
        path.discard(id(node))
        return (symbol_of(node.value), kids)

    return rec(tree, set())


def show(plain):
    sym, kids = plain
    label = sym[1] if sym[0] in ("V", "T") else "<%s>" % (sym[1],)
    if not kids:
        return str(label)
    return "%s(%s)" % (label, " ".join(show(k) for k in kids))


def leaves(plain):
    sym, kids = plain
    if not kids:
        return [sym]
    out = []
    for k in kids:
        out += leaves(k)
    return out


def check_tree(plain, g, start, word):
    """Problems (list of str, empty = a real derivation tree of `word` from `start` in g)."""
    prods = set(g.prods)
    problems = []
    if plain[0] != ("V", start):
        problems.append("root is %r, start symbol is %r" % (plain[0], start))
    spelled = []

    def walk(node):
        sym, kids = node
        if sym[0] == "T":
            if kids:
                problems.append("terminal %r has children" % (sym[1],))
            else:
                spelled.append(sym[1])
            return
        if sym[0] == "E":
            if kids:
                problems.append("epsilon node has children")
            return
        if sym[0] != "V":
            problems.append("node label %s is neither a variable nor a terminal" % (sym[1],))
            return
        body = tuple(k[0] for k in kids if not (k[0][0] == "E" and not k[1]))
        if (sym[1], body) not in prods:
            problems.append("%s -> %s is not a production" % (
                sym[1], " ".join(str(s[1]) for s in body) or "epsilon"))
        for k in kids:
            walk(k)

    walk(plain)
    if tuple(spelled) != tuple(word):
        problems.append("leaves spell %r, word is %r" % (spelled, list(word)))
    return problems


def plain_form(form):
    """One listed sentential form -> list of symbols (epsilon entries, never produced by the library,
    would denote nothing and are dropped)."""
    out = []
    for x in form:
        s = symbol_of(x)
        if s[0] != "E":
            out.append(s)
    return out


def check_derivation(steps, g, start, word, leftmost):
    """steps: list of sentential forms, each a list of plain symbols.
    First form = [start]; every next form rewrites exactly the leftmost (rightmost) variable of the
    previous one by one production of g; the last form is the word."""
    prods = set(g.prods)
    problems = []
    if not steps:
        return ["empty derivation"]
    if list(steps[0]) != [("V", start)]:
        problems.append("first form is %r, not [%s]" % (steps[0], start))
    for n in range(len(steps) - 1):
        cur, nxt = list(steps[n]), list(steps[n + 1])
        idxs = [i for i, s in enumerate(cur) if s[0] == "V"]
        if any(s[0] not in ("V", "T") for s in cur):
            problems.append("step %d: form contains a foreign object" % n)
            break
        if not idxs:
            problems.append("step %d: no variable left in %s but the derivation goes on" % (n, fmt(cur)))
            break
        i = idxs[0] if leftmost else idxs[-1]
        blen = len(nxt) - len(cur) + 1
        if blen < 0:
            problems.append("step %d: %s => %s removes more than one symbol" % (n, fmt(cur), fmt(nxt)))
            break
        body = tuple(nxt[i:i + blen])
        if nxt[:i] != cur[:i] or nxt[i + blen:] != cur[i + 1:]:
            problems.append("step %d: %s => %s does not rewrite only the %s variable" % (
                n, fmt(cur), fmt(nxt), "leftmost" if leftmost else "rightmost"))
            break
        if (cur[i][1], body) not in prods:
            problems.append("step %d: %s => %s uses %s -> %s, not a production" % (
                n, fmt(cur), fmt(nxt), cur[i][1], " ".join(str(s[1]) for s in body) or "epsilon"))
            break
    last = list(steps[-1])
    if last != [("T", x) for x in word]:
        problems.append("last form is %s, word is %r" % (fmt(last), list(word)))
    return problems


def fmt(form):
    return "[" + " ".join(("<%s>" % s[1]) if s[0] == "V" else str(s[1]) for s in form) + "]"


# ----------------------------------------------------------------------------------------
# input-class tags (used to describe genuine defects precisely)

def tree_tags(plain):
    """Shape classes of a (valid) tree that matter to the derivation listings."""
    tags = set()

    def empty_yield(node):
        """A variable subtree without any terminal leaf (it derives the empty word)."""
        sym, kids = node
        if sym[0] == "T":
            return False
        return all(empty_yield(k) for k in kids)

    def walk(node):
        sym, kids = node
        n = len(kids)
        for i, k in enumerate(kids):
            if k[0][0] == "V" and empty_yield(k) and any(kids[j][0][0] == "V" for j in range(i + 1, n)):
                # a son deriving the empty word with a variable sibling somewhere to its right
                tags.add("empty_yield_son_left_of_variable_sibling")
            if k[0][0] == "T" and i < n - 1 and any(kids[j][0][0] == "V" for j in range(i)):
                # a terminal son that is not the last son, with a variable sibling to its left
                tags.add("inner_terminal_son_right_of_variable_sibling")
        for k in kids:
            walk(k)

    walk(plain)
    return sorted(tags)


def earley_items(g, word):
    """Reference Earley chart of (g, word): set of items (prod index, dot, i, j), predicted top-down
    from the start symbol (textbook predictor / scanner / completer, to a fixpoint)."""
    prods = list(g.prods)
    items = set()
    for q, (h, _) in enumerate(prods):
        if h == g.start:
            items.add((q, 0, 0, 0))
    changed = True
    n = len(word)
    while changed:
        changed = False
        new = set()
        for (p, d, i, j) in items:
            body = prods[p][1]
            if d < len(body):
                s = body[d]
                if s[0] == "T":
                    if j < n and word[j] == s[1]:
                        new.add((p, d + 1, i, j + 1))
                else:
                    for q, (h, b) in enumerate(prods):
                        if h == s[1]:
                            new.add((q, 0, j, j))
                            for (q2, d2, i2, j2) in items:
                                if q2 == q and d2 == len(b) and i2 == j:
                                    new.add((p, d + 1, i, j2))
        if not new <= items:
            items |= new
            changed = True
    return prods, items


def earley_tags(g, word):
    """`item_advanced_twice`: some chart item `X -> alpha . B beta [i,j]` can be moved over B by two
    different completed items (another production of B or another end position).
    `empty_span_completion`: some completed item spans nothing (an epsilon derivation is completed)."""
    prods, items = earley_items(g, word)
    tags = set()
    for (p, d, i, j) in items:
        body = prods[p][1]
        if d == len(body) and i == j:
            tags.add("empty_span_completion")
        if d < len(body) and body[d][0] == "V":
            done = {(q, j2) for (q, d2, i2, j2) in items
                    if prods[q][0] == body[d][1] and d2 == len(prods[q][1]) and i2 == j}
            if len(done) >= 2:
                tags.add("item_advanced_twice")
    return sorted(tags)


# ----------------------------------------------------------------------------------------
# oracle validation against the repository's own test fixtures (DESIGN 2.4): selftest_*() raise
# AssertionError on disagreement. (`vf selfcheck` calls every `check_*` name of the modules it lists, so
# these are deliberately not named check_*: a module `vlib/oracles/selfcheck_trees.py` importing them as
# check_* wires them in.)

def _fixture_expr_grammar():
    from vlib.oracles.cfg import G, V, T
    e, e2, t, t2, f = "E", "E’", "T", "T’", "F"
    return G(e, [(e, (V(t), V(e2))), (e2, (T("+"), V(t), V(e2))), (e2, ()),
                 (t, (V(f), V(t2))), (t2, (T("*"), V(f), V(t2))), (t2, ()),
                 (f, (T("("), V(e), T(")"))), (f, (T("id"),))])


def _forms(text):
    """'E | T E’ | ...' -> list of forms; names in the grammar's variable set are variables."""
    variables = {"E", "E’", "T", "T’", "F", "S", "A", "B", "C"}
    out = []
    for part in text.split("|"):
        out.append([("V", x) if x in variables else ("T", x) for x in part.split()])
    return out


def selftest_llone_derivations():
    """test_llone_parser.py: the asserted leftmost / rightmost derivations of id + id * id are accepted,
    each with the other strategy's checker rejects, and a tampered listing rejects."""
    g = _fixture_expr_grammar()
    w = ["id", "+", "id", "*", "id"]
    left = _forms("E | T E’ | F T’ E’ | id T’ E’ | id E’ | id + T E’ | id + F T’ E’ | id + id T’ E’ | "
                  "id + id * F T’ E’ | id + id * id T’ E’ | id + id * id E’ | id + id * id")
    right = _forms("E | T E’ | T + T E’ | T + T | T + F T’ | T + F * F T’ | T + F * F | T + F * id | "
                   "T + id * id | F T’ + id * id | F + id * id | id + id * id")
    assert check_derivation(left, g, "E", w, True) == []
    assert check_derivation(right, g, "E", w, False) == []
    assert check_derivation(left, g, "E", w, False) != []
    assert check_derivation(right, g, "E", w, True) != []
    assert check_derivation(left[:-1], g, "E", w, True) != []
    assert check_derivation(left[:3] + left[4:], g, "E", w, True) != []
    assert check_derivation(left, g, "E", w[:-1], True) != []


def selftest_cnf_derivations():
    """test_cfg.py test_get_leftmost_derivation / test_get_rightmost_derivation / test_derivation_empty."""
    from vlib.oracles.cfg import G, V, T
    g = G("S", [("S", (V("C"), V("B"))), ("C", (V("A"), V("A"))), ("A", (T("a"),)), ("B", (T("b"),))])
    w = ["a", "a", "b"]
    assert check_derivation(_forms("S | C B | A A B | a A B | a a B | a a b"), g, "S", w, True) == []
    assert check_derivation(_forms("S | C B | C b | A A b | A a b | a a b"), g, "S", w, False) == []
    assert check_derivation(_forms("S | C B | C b | A A b | A a b | a a b"), g, "S", w, True) != []
    assert check_derivation(_forms("S | C B | A A B | a a B | a a b"), g, "S", w, True) != []
    tree = (V("S"), [(V("C"), [(V("A"), [(T("a"), [])]), (V("A"), [(T("a"), [])])]), (V("B"), [(T("b"), [])])])
    assert check_tree(tree, g, "S", w) == []
    assert check_tree(tree, g, "S", ["a", "b", "a"]) != []
    assert check_tree(tree, g, "C", w) != []
    swapped = (V("S"), [tree[1][1], tree[1][0]])
    assert check_tree(swapped, g, "S", ["b", "a", "a"]) != []
    g0 = G("S", [("S", ())])
    assert check_derivation([[V("S")], []], g0, "S", [], False) == []
    assert check_tree((V("S"), []), g0, "S", []) == []
    assert check_tree((V("S"), [(("E", "epsilon"), [])]), g0, "S", []) == []
    assert check_tree((V("S"), []), g, "S", []) != []


def selftest_library_trees():
    """The trees the library returns on its own test fixtures are accepted (LL(1) expression grammar,
    recursive-descent grammar of test_recursive_decent_parser.py)."""
    from pyformlang.cfg import CFG
    from pyformlang.cfg.llone_parser import LLOneParser
    from pyformlang.cfg.recursive_decent_parser import RecursiveDecentParser
    from vlib.oracles import cfg as OC
    cfg = CFG.from_text("""
        E  -> T E’
        E’ -> + T E’ | Є
        T  -> F T’
        T’ -> * F T’ | Є
        F  -> ( E ) | id
    """, start_symbol="E")
    w = ["id", "+", "id", "*", "id"]
    tree = tree_to_plain(LLOneParser(cfg).get_llone_parse_tree(w))
    assert check_tree(tree, OC.extract(cfg), "E", w) == []
    assert check_tree(tree, _fixture_expr_grammar(), "E", w) == []
    cfg2 = CFG.from_text("""
        E -> S + S
        E -> S * S
        S -> ( E )
        S -> int
    """)
    w2 = ["(", "int", "+", "(", "int", "*", "int", ")", ")"]
    t2 = RecursiveDecentParser(cfg2).get_parse_tree(w2)
    g2 = OC.extract(cfg2)
    assert check_tree(tree_to_plain(t2), g2, "S", w2) == []
    assert check_derivation([plain_form(f) for f in t2.get_leftmost_derivation()], g2, "S", w2, True) == []
