"""O-RX: the *documented* syntax of pyformlang.regular_expression.Regex (docstring of class Regex):

  * concatenation: a space or '.';  union: '|' or '+';  Kleene star: '*';  parentheses group
  * the empty word: 'epsilon' or '$'
  * every other token is one symbol (tokens are separated by spaces and by the special characters)
  * a special character can be escaped with a backslash
  * '*' binds tighter than concatenation, which binds tighter than union

classify(text) -> ("wf", ast) | ("ill", reason) | ("undoc", reason)
   wf    : derivable from the grammar below -> the library must parse it with exactly this meaning
   ill   : definitely not a regular expression (unbalanced parentheses, operator without operand)
   undoc : spelling the documentation does not cover (lone backslash, backslash before an ordinary
           character or inside a longer token, empty text, ...) -> only "no foreign exception" is judged

     union  := concat (('|' | '+') concat)*
     concat := star (['.'] star)*
     star   := atom '*'*
     atom   := SYMBOL | 'epsilon' | '$' | '(' union ')'
"""
from vlib.oracles import nfa as O

SPECIAL = set(".|+*()$")


class Undoc(Exception):
    pass


class Ill(Exception):
    pass


def tokenize(text):
    """-> list of tokens: ('op', c) for . | + * ( ), ('eps',), ('sym', value)."""
    toks = []
    i = 0
    n = len(text)
    cur = None      # characters of the symbol token being read
    cur_has_escape = False

    def flush():
        nonlocal cur, cur_has_escape
        if cur is not None:
            tok = "".join(cur)
            if cur_has_escape:
                raise Undoc("escape inside a longer token")
            if tok == "epsilon":
                toks.append(("eps",))
            else:
                toks.append(("sym", tok))
        cur = None
        cur_has_escape = False

    while i < n:
        c = text[i]
        if c == " ":
            flush()
            i += 1
        elif c == "\\":
            if i + 1 >= n:
                raise Undoc("trailing backslash")
            d = text[i + 1]
            if d not in SPECIAL:
                raise Undoc("backslash before an ordinary character")
            if cur is not None:
                raise Undoc("escape inside a longer token")
            # a stand-alone escaped special character is one symbol
            if i + 2 < n and text[i + 2] != " " and text[i + 2] not in SPECIAL:
                raise Undoc("escape inside a longer token")
            toks.append(("sym", d))
            i += 2
        elif c in SPECIAL:
            flush()
            if c == "$":
                toks.append(("eps",))
            else:
                toks.append(("op", c))
            i += 1
        else:
            if cur is None:
                cur = []
            cur.append(c)
            i += 1
    flush()
    return toks


def parse(toks):
    pos = [0]

    def peek():
        return toks[pos[0]] if pos[0] < len(toks) else None

    def union():
        left = concat()
        while peek() in (("op", "|"), ("op", "+")):
            pos[0] += 1
            right = concat()
            left = ("union", left, right)
        return left

    def starts_atom(t):
        return t is not None and (t[0] in ("sym", "eps") or t == ("op", "("))

    def concat():
        left = star()
        while True:
            t = peek()
            if t == ("op", "."):
                pos[0] += 1
                right = star()
                left = ("concat", left, right)
            elif starts_atom(t):
                right = star()
                left = ("concat", left, right)
            else:
                return left

    def star():
        a = atom()
        while peek() == ("op", "*"):
            pos[0] += 1
            a = ("star", a)
        return a

    def atom():
        t = peek()
        if t is None:
            raise Ill("operand expected at end")
        if t[0] == "sym":
            pos[0] += 1
            return ("sym", t[1])
        if t[0] == "eps":
            pos[0] += 1
            return ("eps",)
        if t == ("op", "("):
            pos[0] += 1
            inner = union()
            if peek() != ("op", ")"):
                raise Ill("missing closing parenthesis")
            pos[0] += 1
            return inner
        raise Ill("operand expected, found %r" % (t,))

    ast = union()
    if pos[0] != len(toks):
        raise Ill("unexpected %r" % (toks[pos[0]],))
    return ast


def classify(text):
    try:
        toks = tokenize(text)
    except Undoc as e:
        return ("undoc", str(e))
    if not toks:
        return ("undoc", "empty text")
    # unbalanced parentheses are ill-formed whatever else happens
    depth = 0
    for t in toks:
        if t == ("op", "("):
            depth += 1
        elif t == ("op", ")"):
            depth -= 1
            if depth < 0:
                return ("ill", "closing parenthesis without opening one")
    if depth != 0:
        return ("ill", "unbalanced parentheses")
    try:
        return ("wf", parse(toks))
    except Ill as e:
        return ("ill", str(e))


def must_refuse(text):
    """True for ill-formed text whose defect is unambiguous: unbalanced / empty parentheses, an operator without
    its left operand, two binary operators in a row.  Text in which a binary operator lacks its RIGHT operand
    ('a|', '(a.)') is left out: the library documents nothing about it and reads the missing operand as the
    empty language, so accepting it is not held against it."""
    cls = classify(text)
    if cls[0] != "ill":
        return False
    toks = tokenize(text)
    for i, t in enumerate(toks):
        if t in (("op", "|"), ("op", "+"), ("op", ".")):
            nxt = toks[i + 1] if i + 1 < len(toks) else None
            if nxt is None or nxt == ("op", ")"):
                return False
    return True


def symbols_of(ast):
    if ast[0] == "sym":
        return {ast[1]}
    if ast[0] == "eps":
        return set()
    out = set()
    for x in ast[1:]:
        out |= symbols_of(x)
    return out


def to_ref(ast):
    """Own Thompson construction -> O.Ref."""
    r = O.Ref()
    counter = [0]

    def new():
        counter[0] += 1
        r.states.add(counter[0])
        return counter[0]

    def build(a, s, t):
        if a[0] == "sym":
            r.add(s, a[1], t)
        elif a[0] == "eps":
            r.add_eps(s, t)
        elif a[0] == "union":
            for x in a[1:]:
                p, q = new(), new()
                r.add_eps(s, p)
                r.add_eps(q, t)
                build(x, p, q)
        elif a[0] == "concat":
            m = new()
            build(a[1], s, m)
            build(a[2], m, t)
        elif a[0] == "star":
            p, q = new(), new()
            r.add_eps(s, p)
            r.add_eps(q, t)
            r.add_eps(s, t)
            r.add_eps(q, p)
            build(a[1], p, q)

    s, t = new(), new()
    r.starts = {s}
    r.finals = {t}
    build(ast, s, t)
    return r


def ref_from_plain(plain):
    """plain = {'states':[..], 'starts':[..], 'finals':[..], 'edges':[(q, sym_or_None, t)]} -> Ref"""
    r = O.Ref(states=plain["states"], starts=plain["starts"], finals=plain["finals"])
    for q, a, t in plain["edges"]:
        if a is None:
            r.add_eps(q, t)
        else:
            r.add(q, a, t)
    return r
