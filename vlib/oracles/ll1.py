"""O-LL1: what property C14 needs on top of O-CFG (vlib/oracles/cfg.py).

* reading pyformlang's FIRST / FOLLOW dictionaries (the library's representation, see
  pyformlang/cfg/llone_parser.py and its tests):
    FIRST  : dict CFGObject -> set of Terminal; epsilon is the object `Epsilon()`
    FOLLOW : dict CFGObject -> set of Terminal; end of input is the plain string "$"
  Both dictionaries also carry entries for terminals; the tests only ever look at variables, so only
  the variables' entries are read here.
* the textbook LL(1) table automaton (strong-LL(1) predict table, stack machine), used to *classify*
  inputs (tags of known findings) and as a cross-check of the reference membership - never as the
  membership oracle itself (that is `cfg.words_upto`).

Nothing here shares code with pyformlang.
"""
from vlib.oracles import cfg as OC

EPS = OC.EPS
END = OC.END


# ----------------------------------------------------------------------------------------
# reading the library's sets

def read_symbol_set(value, end_marker):
    """Library set -> (set of reference symbols, list of problems). Terminal -> its value,
    Epsilon() -> EPS, the string "$" -> END (only where end_marker is True)."""
    from pyformlang.cfg import Terminal
    from pyformlang.cfg.epsilon import Epsilon
    out = set()
    problems = []
    try:
        items = list(value)
    except TypeError:
        return out, ["not iterable: %r" % (value,)]
    for e in items:
        if isinstance(e, Epsilon):
            if end_marker:
                problems.append("epsilon inside a FOLLOW set")
            out.add(EPS)
        elif isinstance(e, Terminal):
            out.add(e.value)
        elif end_marker and isinstance(e, str) and e == "$":
            out.add(END)
        else:
            problems.append("unexpected member %r" % (e,))
    return out, problems


def read_sets(table, variables, end_marker):
    """{variable name: (symbols, problems)} for the given variable names. A missing key reads as
    the empty set (the property speaks about the sets, not about which keys exist)."""
    from pyformlang.cfg import Variable
    res = {}
    for name in sorted(variables):
        try:
            present = Variable(name) in table
            value = table[Variable(name)] if present else ()
        except Exception as exc:  # noqa  (a table that cannot be indexed is reported, not raised)
            res[name] = (set(), ["cannot look up %r: %r" % (name, exc)])
            continue
        res[name] = read_symbol_set(value, end_marker)
    return res


def show(symbols):
    return sorted("eps" if s == EPS else "$" if s == END else s for s in symbols)


# ----------------------------------------------------------------------------------------
# grammar classes

def nullable_nonempty_bodies(g, first=None):
    """Productions whose body is non-empty and derives the empty word."""
    first = first or OC.first_sets(g)
    return [(h, b) for h, b in g.prods if b and EPS in OC.first_of_seq(b, first)]


def shape_tags(g):
    """Tags of the quantifier's input classes (evidence / statistics only)."""
    first = OC.first_sets(g)
    nul = OC.nullable_vars(g)
    tags = []
    if nul:
        tags.append("nullable_variable")
    if nullable_nonempty_bodies(g, first):
        tags.append("nullable_nonempty_body")
    if OC.has_epsilon_production(g):
        tags.append("epsilon_production")
    by_head = {}
    for h, b in g.prods:
        by_head.setdefault(h, []).append(b)
    if any(len({b[0] for b in bs if b}) < len([b for b in bs if b]) for bs in by_head.values()):
        tags.append("common_prefix")
    # left recursion: A =>+ A alpha
    left = {v: set() for v in g.variables}
    for h, b in g.prods:
        for s in b:
            if s[0] == "T":
                break
            left[h].add(s[1])
            if s[1] not in nul:
                break
    changed = True
    while changed:
        changed = False
        for a in left:
            for x in list(left[a]):
                new = left[x] - left[a]
                if new:
                    left[a] |= new
                    changed = True
    if any(a in left[a] for a in left):
        tags.append("left_recursion")
    return tags


def predict_table(g, drop_first_of_nullable_nonempty=False):
    """(head, lookahead) -> list of distinct bodies. With the flag: the table of the *input class*
    test below (predict sets without the part that only FIRST of a nullable non-empty body gives)."""
    first = OC.first_sets(g)
    follow = OC.follow_sets(g, first)
    table = {}
    for h, b in g.prods:
        f = OC.first_of_seq(b, first)
        p = (f - {EPS}) | (follow[h] if EPS in f else set())
        if drop_first_of_nullable_nonempty and b and EPS in f:
            p = set(follow[h])
        for a in p:
            cell = table.setdefault((h, a), [])
            if b not in cell:
                cell.append(b)
    return table


def conflicts(table):
    return sorted((h, a) for (h, a), cell in table.items() if len(cell) > 1)


def verdict_tags(g):
    """Input class of a wrong `is_llone_parsable()`: `conflicts_only_via_first_of_nullable_nonempty_body`
    when the grammar is not LL(1) and every conflict disappears once the symbols that a nullable
    non-empty body contributes through FIRST alone (not through FOLLOW of its head) are left out."""
    tags = []
    if nullable_nonempty_bodies(g):
        tags.append("nullable_nonempty_body")
        if conflicts(predict_table(g)) and not conflicts(predict_table(g, True)):
            tags.append("conflicts_only_via_first_of_nullable_nonempty_body")
    return tags


# ----------------------------------------------------------------------------------------
# the textbook table automaton

def ll1_run(g, word, cap=10000):
    """Run the textbook LL(1) stack automaton of an LL(1) grammar on word.
    Returns (outcome, steps): outcome in 'accept' | 'error' (empty table cell or terminal mismatch)
    | 'stack_empty' (every grammar symbol has been consumed, input remains); steps = list of
    (head, body, lookahead) of the productions applied."""
    table = predict_table(g)
    w = list(word) + [END]
    i = 0
    stack = [("V", g.start)]
    steps = []
    n = 0
    while stack:
        n += 1
        if n > cap:
            raise RuntimeError("reference LL(1) automaton does not stop (grammar not LL(1)?)")
        top = stack.pop()
        la = w[i]
        if top[0] == "T":
            if la != top[1]:
                return "error", steps
            i += 1
            continue
        cell = table.get((top[1], la), [])
        if len(cell) != 1:
            if len(cell) > 1:
                raise RuntimeError("reference LL(1) automaton run on a grammar that is not LL(1)")
            return "error", steps
        steps.append((top[1], cell[0], la))
        stack.extend(reversed(cell[0]))
    if w[i] == END:
        return "accept", steps
    return "stack_empty", steps


def run_tags(g, steps):
    """`nullable_nonempty_body_selected_by_first`: the derivation of the word applies a production
    whose body is non-empty and nullable on a lookahead that is in FIRST(body) but not in
    FOLLOW(head)."""
    first = OC.first_sets(g)
    follow = OC.follow_sets(g, first)
    tags = []
    if nullable_nonempty_bodies(g, first):
        tags.append("nullable_nonempty_body")
    for h, b, la in steps:
        if b and EPS in OC.first_of_seq(b, first) and la not in follow[h]:
            tags.append("nullable_nonempty_body_selected_by_first")
            break
    return tags


# ----------------------------------------------------------------------------------------
# oracle validation (DESIGN 2.4): the fixtures literally asserted in pyformlang/cfg/tests/
# test_llone_parser.py pushed through O-CFG / O-LL1. `vf selfcheck` runs every `check_*` function of the
# modules listed in vlib/selfcheck.py:MODULES - add "vlib.oracles.ll1" there to include this one.

def check_llone_fixtures():
    from pyformlang.cfg import CFG
    from pyformlang.cfg.llone_parser import LLOneParser
    expr = """
        E  -> T E’
        E’ -> + T E’ | Є
        T  -> F T’
        T’ -> * F T’ | Є
        F  -> ( E ) | id
    """
    cfg1 = CFG.from_text(expr, start_symbol="E")
    g1 = OC.extract(cfg1)
    first, follow = OC.first_sets(g1), OC.follow_sets(g1)
    assert first == {"E": {"(", "id"}, "E’": {"+", EPS}, "T": {"(", "id"}, "T’": {"*", EPS}, "F": {"(", "id"}}
    assert follow == {"E": {END, ")"}, "E’": {END, ")"}, "T": {END, "+", ")"}, "T’": {END, "+", ")"},
                      "F": {END, "+", "*", ")"}}
    assert OC.is_ll1(g1)
    g2 = OC.extract(CFG.from_text("""
        S -> A C B | C b b | B a
        A -> d a | B C
        B -> g | Є
        C -> h | Є
    """))
    first, follow = OC.first_sets(g2), OC.follow_sets(g2)
    assert first == {"S": {"d", "g", "h", "b", "a", EPS}, "A": {"d", "g", "h", EPS}, "B": {"g", EPS},
                     "C": {"h", EPS}}
    assert follow == {"S": {END}, "A": {END, "h", "g"}, "B": {END, "h", "g", "a"}, "C": {END, "h", "g", "b"}}
    assert not OC.is_ll1(OC.extract(CFG.from_text("S -> A | a\nA -> a", start_symbol="S")))
    assert ll1_run(g1, ["id", "+", "id", "*", "id"])[0] == "accept"
    assert ll1_run(g1, ["id", "+"])[0] == "error"
    assert ll1_run(g1, ["id", ")"])[0] == "stack_empty"
    parser = LLOneParser(cfg1)
    for table, want, end_marker in ((parser.get_first_set(), OC.first_sets(g1), False),
                                    (parser.get_follow_set(), OC.follow_sets(g1), True)):
        got = read_sets(table, g1.variables, end_marker)
        assert all(not problems for _, problems in got.values())
        assert {k: v for k, (v, _) in got.items()} == want
