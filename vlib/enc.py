"""Symbolic input encodings: small symbolic ints/bools decoded through tables (each look-up forks;
z3 decides which branches are feasible). Decoders return plain concrete Python data."""
from itertools import permutations


def pick(x, n):
    """Concrete int in range(n) equal to the (symbolic) int x; -1 when outside."""
    for v in range(n):
        if x == v:
            return v
    return -1


def flag(b):
    if b:
        return True
    return False


def in_range(xs, hi, lo=0):
    ok = True
    for x in xs:
        ok = ok & (lo <= x) & (x < hi)
    return ok


def bits_of(x, n):
    """Concrete list of n bools for a symbolic mask 0 <= x < 2**n (decoded by table)."""
    v = pick(x, 1 << n)
    return [bool((v >> i) & 1) for i in range(n)]


def mask_members(x, n):
    v = pick(x, 1 << n)
    return [i for i in range(n) if (v >> i) & 1]


PERMS = {j: list(permutations(range(j))) for j in range(0, 5)}


def perm_of(idx, j):
    """Permutation number idx of range(j) (idx symbolic, < j!)."""
    ps = PERMS[j]
    return list(ps[pick(idx, len(ps))])


def apply_order(items, order):
    """Reorder items by a permutation of indices; extra items keep their place at the end."""
    k = len(order)
    head = [items[i] for i in order if i < len(items)]
    return head + list(items[k:])


# ----------------------------------------------------------------------------------------
# epsilon-NFA

def enfa_edge_slots(n, k):
    """All possible edges (q, sym, t); sym 0 = epsilon, 1..k = symbols."""
    return [(q, s, t) for q in range(n) for s in range(k + 1) for t in range(n)]


def decode_enfa_dense(bits, n, k):
    slots = enfa_edge_slots(n, k)
    edges = []
    for i, slot in enumerate(slots):
        if bits[i]:
            edges.append(slot)
    return edges


def decode_enfa_sparse(t, m_used, n, k):
    """t: flat tuple of 3*m ints (q, sym, q'); the first m_used triples are used."""
    edges = []
    m = pick(m_used, len(t) // 3 + 1)
    for i in range(m):
        q = pick(t[3 * i], n)
        s = pick(t[3 * i + 1], k + 1)
        r = pick(t[3 * i + 2], n)
        edges.append((q, s, r))
    return edges


def sparse_canonical(t, m_used):
    """Precondition: used triples strictly increasing (no duplicates, one order), unused are 0.
    Written with & / | only: on symbolic values this is ONE solver term (an `and` / `or` / chained
    comparison would fork the path at every conjunct)."""
    ok = True
    m = len(t) // 3
    for i in range(m):
        a = (t[3 * i], t[3 * i + 1], t[3 * i + 2])
        ok = ok & ((i < m_used) | ((a[0] == 0) & (a[1] == 0) & (a[2] == 0)))
        if i + 1 < m:
            b = (t[3 * i + 3], t[3 * i + 4], t[3 * i + 5])
            less = (a[0] < b[0]) | ((a[0] == b[0]) & ((a[1] < b[1]) | ((a[1] == b[1]) & (a[2] < b[2]))))
            ok = ok & ((i + 1 >= m_used) | less)
    return ok


SYMS = ["a", "b", "c"]


def sym_label(s, table=SYMS):
    """0 -> None (epsilon), i -> table[i-1]"""
    return None if s == 0 else table[s - 1]


def build_enfa(cls, n, edges, starts, finals, labels=None, syms=SYMS, order=None, eps="epsilon"):
    """Build through the public API only. labels: state label per index. order: permutation of the
    insertion order of the edges."""
    fa = cls()
    lab = (lambda q: q) if labels is None else (lambda q: labels[q])
    es = list(edges)
    if order is not None:
        es = apply_order(es, order)
    for q, s, t in es:
        fa.add_transition(lab(q), eps if s == 0 else syms[s - 1], lab(t))
    for q in starts:
        fa.add_start_state(lab(q))
    for q in finals:
        fa.add_final_state(lab(q))
    return fa


def ref_enfa(n, edges, starts, finals, labels=None, syms=SYMS, extra_alphabet=()):
    from vlib.oracles import nfa as O
    lab = (lambda q: q) if labels is None else (lambda q: labels[q])
    r = O.Ref(alphabet=extra_alphabet)
    for q, s, t in edges:
        if s == 0:
            r.add_eps(lab(q), lab(t))
        else:
            r.add(lab(q), syms[s - 1], lab(t))
    r.starts = {lab(q) for q in starts}
    r.finals = {lab(q) for q in finals}
    r.states |= r.starts | r.finals
    return r


def decode_word(w, length, table):
    """w: tuple of symbolic ints, the first `length` are used; table[i] is the symbol."""
    out = []
    ln = pick(length, len(w) + 1)
    for i in range(ln):
        out.append(table[pick(w[i], len(table))])
    return out


# ----------------------------------------------------------------------------------------
# context-free grammars

VARS = ["S", "A", "B"]
TERMS = ["a", "b", "c"]


def cfg_stride(b):
    return 2 + b


def decode_cfg(t, p_used, v, nt, b):
    """t: flat tuple, per production (head, body_len, s_0 .. s_{b-1}); codes < v are variables,
    v <= code < v+nt terminals. Returns [(head_idx, [codes])]."""
    stride = cfg_stride(b)
    maxp = len(t) // stride
    p = pick(p_used, maxp + 1)
    prods = []
    for i in range(p):
        base = i * stride
        h = pick(t[base], v)
        ln = pick(t[base + 1], b + 1)
        body = [pick(t[base + 2 + j], v + nt) for j in range(ln)]
        prods.append((h, body))
    return prods


def cfg_canonical(t, p_used, v, nt, b):
    """Precondition: ranges; unused slots zero; used productions strictly increasing (a set, one order).
    & / | only (one solver term, no forking)."""
    stride = cfg_stride(b)
    maxp = len(t) // stride
    ok = (0 <= p_used) & (p_used <= maxp)
    for i in range(maxp):
        base = i * stride
        ok = ok & (0 <= t[base]) & (t[base] < v) & (0 <= t[base + 1]) & (t[base + 1] <= b)
        for j in range(b):
            x = t[base + 2 + j]
            ok = ok & (0 <= x) & (x < v + nt) & ((j < t[base + 1]) | (x == 0))
        ok = ok & ((i < p_used) | ((t[base] == 0) & (t[base + 1] == 0)))
        if i + 1 < maxp:
            ok = ok & ((i + 1 >= p_used) | lex_less(t[base:base + stride], t[base + stride:base + 2 * stride]))
    return ok


def lex_less(a, b):
    """Strict lexicographic order of two equal-length tuples of (symbolic) ints, as one term."""
    res = False
    for i in range(len(a) - 1, -1, -1):
        res = (a[i] < b[i]) | ((a[i] == b[i]) & res)
    return res


def cfg_symbol(code, v, vars_=VARS, terms=TERMS):
    from vlib.oracles import cfg as OC
    return OC.V(vars_[code]) if code < v else OC.T(terms[code - v])


def ref_cfg(prods, v, start="S", vars_=VARS, terms=TERMS):
    from vlib.oracles import cfg as OC
    return OC.G(start, [(vars_[h], tuple(cfg_symbol(c, v, vars_, terms) for c in body))
                        for h, body in prods])


def build_cfg(prods, v, start="S", vars_=VARS, terms=TERMS, order=None, as_list=False):
    from pyformlang.cfg import CFG, Variable, Terminal, Production
    ps = []
    for h, body in prods:
        objs = [Variable(vars_[c]) if c < v else Terminal(terms[c - v]) for c in body]
        ps.append(Production(Variable(vars_[h]), objs))
    if order is not None:
        ps = apply_order(ps, order)
    if not as_list:
        coll = set()
        for p in ps:
            coll.add(p)
        ps = coll
    return CFG(start_symbol=Variable(start) if start is not None else None, productions=ps)



# ----------------------------------------------------------------------------------------
# 5-state partial DFAs over {a,b}: the a-row is one of a few fixed shapes, the b-row is free.
# (sizes at which Hopcroft's processing list holds classes for both symbols at once; exhaustive
#  enumeration of 6^10 tables is out of reach, so the a-row is a parameter of the slice)
DFA5_AROWS = [
    (1, 2, 3, 4, None),     # chain 0->1->2->3->4
    (0, 2, 3, 4, 1),        # a permutation: fixed point 0 and the cycle 1->2->3->4->1
    (1, 2, 0, 4, 3),        # a permutation: the cycles (0 1 2) and (3 4)
    (1, 2, 3, 4, 0),        # one 5-cycle
]
DFA5_FINALS = [[2, 3, 4], [0, 2, 4]]


def dfa5_edges(arow, b):
    """arow: index into DFA5_AROWS (symbolic int), b: 5 ints in 0..5 (0 = no b-transition, v = to state v-1)."""
    ar = DFA5_AROWS[pick(arow, len(DFA5_AROWS))]
    edges = [(q, 1, ar[q]) for q in range(5) if ar[q] is not None]
    for q in range(5):
        v = pick(b[q], 6)
        if v > 0:
            edges.append((q, 2, v - 1))
    return edges

# ----------------------------------------------------------------------------------------
# pushdown automata

PDA_STACK = ["Z", "X"]
PDA_PUSHES = [(), (0,), (1,), (1, 0), (1, 1, 0), (0, 1)]      # indices into the stack alphabet, top first


def decode_pda(t, m_used, n, k, npush=len(PDA_PUSHES)):
    """t: flat tuple, 5 ints per transition (from, input 0=eps 1..k, pop 0/1, to, push code)."""
    maxm = len(t) // 5
    m = pick(m_used, maxm + 1)
    out = []
    for i in range(m):
        b = 5 * i
        out.append((pick(t[b], n), pick(t[b + 1], k + 1), pick(t[b + 2], 2), pick(t[b + 3], n),
                    pick(t[b + 4], npush)))
    return out


def pda_canonical(t, m_used, n, k, npush=len(PDA_PUSHES)):
    maxm = len(t) // 5
    ok = (0 <= m_used) & (m_used <= maxm)
    for i in range(maxm):
        b = 5 * i
        ok = ok & (0 <= t[b]) & (t[b] < n) & (0 <= t[b + 1]) & (t[b + 1] <= k) & (0 <= t[b + 2]) & (t[b + 2] < 2) \
            & (0 <= t[b + 3]) & (t[b + 3] < n) & (0 <= t[b + 4]) & (t[b + 4] < npush)
        ok = ok & ((i < m_used) | ((t[b] == 0) & (t[b + 1] == 0) & (t[b + 2] == 0) & (t[b + 3] == 0)
                                   & (t[b + 4] == 0)))
        if i + 1 < maxm:
            ok = ok & ((i + 1 >= m_used) | lex_less(t[b:b + 5], t[b + 5:b + 10]))
    return ok


def pda_spec(trans, finals, states=(0, 1), stack=PDA_STACK, syms=SYMS, start=0, start_stack=0):
    """-> plain (states, start, start_stack, finals, transitions) with labels applied."""
    tr = []
    for (p, a, X, q, pc) in trans:
        tr.append((states[p], None if a == 0 else syms[a - 1], stack[X], states[q],
                   tuple(stack[i] for i in PDA_PUSHES[pc])))
    return (list(states), states[start], stack[start_stack], [states[f] for f in finals], tr)


def build_pda(spec):
    from pyformlang.pda import PDA
    states, start, start_stack, finals, tr = spec
    pda = PDA()
    pda.set_start_state(start)
    pda.set_start_stack_symbol(start_stack)
    for f in finals:
        pda.add_final_state(f)
    for (p, a, X, q, push) in tr:
        pda.add_transition(p, "epsilon" if a is None else a, X, q, list(push))
    return pda


def ref_pda(spec):
    from vlib.oracles import pda as OP
    states, start, start_stack, finals, tr = spec
    return OP.RefPDA([start], start, start_stack, finals, tr)


# ----------------------------------------------------------------------------------------
# range predicates for contracts, as single solver terms (& / |, no forking)

def rng(x, lo, hi):
    """lo <= x < hi"""
    return (lo <= x) & (x < hi)


def sparse_ranges(t, n, k):
    """every triple (q, sym, q') of the flat tuple t has q, q' < n and sym <= k"""
    ok = True
    for i in range(len(t) // 3):
        ok = ok & (0 <= t[3 * i]) & (t[3 * i] < n) & (0 <= t[3 * i + 1]) & (t[3 * i + 1] <= k) \
            & (0 <= t[3 * i + 2]) & (t[3 * i + 2] < n)
    return ok


def word_ranges(w, wlen, nsym):
    """0 <= wlen <= len(w); used positions < nsym, unused positions are 0"""
    ok = (0 <= wlen) & (wlen <= len(w))
    for i in range(len(w)):
        ok = ok & (0 <= w[i]) & (w[i] < nsym) & ((i < wlen) | (w[i] == 0))
    return ok
