"""Developer tool: dump the registered conditions (name, tiers, bounds) as markdown for DESIGN.md §8."""
import os
import sys
sys.path.insert(0, "/verif"); sys.path.insert(1, "/repo")
from vlib import registry
out = []
for prop in registry.PROPS:
    try:
        conds = registry.load(prop)
    except Exception as e:
        out.append("### %s\n(not built: %r)\n" % (prop, e)); continue
    out.append("### %s" % prop)
    for c in conds:
        os.environ["VF_ALL_SHARDS"] = "1"
        full = len(c.shards("thorough")) if "thorough" in c.tiers else None
        del os.environ["VF_ALL_SHARDS"]
        sched = len(c.shards("thorough")) if "thorough" in c.tiers else None
        out.append("* `%s` (%s; %s shards quick / %s thorough%s)" % (
            c.name, "+".join(c.tiers), len(c.shards("quick")) if "quick" in c.tiers else "-",
            full if full is not None else "-",
            "" if full is None or sched == full else ", %d scheduled" % sched))
        for tier in c.tiers:
            if c.bound.get(tier) and not (tier == "thorough" and c.bound.get("thorough") in ("same", c.bound.get("quick"))):
                out.append("    * %s: %s" % (tier, c.bound[tier]))
        if c.stubs:
            out.append("    * stubs: %s" % "; ".join(c.stubs))
    out.append("")
print("\n".join(out))
