"""Developer tool: dump the registered conditions (name, tiers, bounds) as markdown for DESIGN.md §8."""
import sys
sys.path.insert(0, "/verif"); sys.path.insert(1, "/repo")
from vlib import registry
out = []
for prop in registry.PROPS:
    try:
        conds = registry.load(prop)
    except Exception as e:
        out.append("### %s\n(not built: %r)\n" % (prop, e)); continue
    out.append("### %s" % prop)
    for c in conds:
        out.append("* `%s` (%s; %s shards quick / %s thorough)" % (
            c.name, "+".join(c.tiers), len(c.shards("quick")) if "quick" in c.tiers else "-",
            len(c.shards("thorough")) if "thorough" in c.tiers else "-"))
        for tier in c.tiers:
            if c.bound.get(tier) and not (tier == "thorough" and c.bound.get("thorough") in ("same", c.bound.get("quick"))):
                out.append("    * %s: %s" % (tier, c.bound[tier]))
        if c.stubs:
            out.append("    * stubs: %s" % "; ".join(c.stubs))
    out.append("")
print("\n".join(out))
