"""Developer tool: record which thorough shards have been run to CONFIRMED on this tree.

   /verif/.venv/bin/python tools_validated.py          -> (re)writes vlib/thorough_validated.json

The thorough tier only schedules shards listed there (registry.Cond.shards): a shard that has never completed
inside the wall budget contributes nothing to a run but the risk of an unvalidated harness, so the tier is sized
to what has actually been run. Conditions missing from the file are scheduled in full (new conditions).
VF_ALL_SHARDS=1 schedules every shard of the generators regardless of the file.
"""
import glob
import json
import os
import sys
sys.path.insert(0, "/verif"); sys.path.insert(1, "/repo")
os.environ["VF_ALL_SHARDS"] = "1"
from vlib import registry

try:
    PREVIOUS = json.load(open("/verif/vlib/thorough_validated.json"))
except (OSError, ValueError):
    PREVIOUS = {}
if os.environ.get("VF_VALIDATED_RESET"):
    PREVIOUS = {}
out = {}
stats = {}
for prop in registry.PROPS:
    for c in registry.load(prop):
        if "thorough" not in c.tiers:
            continue
        current = c.shards("thorough")
        # pins validated by earlier runs stay validated (the per-shard result files are overwritten by later runs)
        ok = [p for p in PREVIOUS.get(c.name, []) if p in current]
        seen = 0
        for f in glob.glob("/verif/build/%s/thorough/%s__s*.json" % (prop, c.name)):
            try:
                d = json.load(open(f))
            except Exception:
                continue
            if d.get("cond") != c.name:
                continue
            seen += 1
            if d.get("status") == "CONFIRMED" and d.get("pin") in current and d["pin"] not in ok:
                ok.append(d["pin"])
        ok.sort(key=lambda p: current.index(p))
        if ok:
            out[c.name] = ok
        stats[c.name] = (len(current), len(ok), seen)
json.dump(out, open("/verif/vlib/thorough_validated.json", "w"), indent=0, sort_keys=True)
for k, v in stats.items():
    print("%-24s generator %4d  validated %4d  result files %4d" % ((k,) + v))
