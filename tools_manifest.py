"""Regenerates /verif/MANIFEST.json from the condition registry (developer tool; the result is committed)."""
import json
import os
import sys

sys.path.insert(0, "/verif")
sys.path.insert(1, "/repo")
from vlib import registry  # noqa

LEVEL_TEXT = {
    "default": "Bounded symbolic execution of pyformlang's real code (CrossHair 0.0.110 on z3): harness inputs are "
               "symbolic, z3 decides every path condition, and a shard counts only when CrossHair reports 'Confirmed "
               "over all paths' (solver-certified cover of the stated bound). Results are judged against an independent "
               "reference semantics; every counterexample is replayed natively before it is reported. Nothing is "
               "claimed outside the bounds listed in the evidence file.",
}
NOTES = {
    "C19": "reference = the library's own answers on a freshly built equal object (the property is differential)",
    "C07": "reference = CPython's re.fullmatch; documented subset decided on CPython's own parse tree",
}
NOT_BUILT = {}


def main(claim):
    props = [json.loads(l) for l in open("/verif/properties.jsonl")]
    hooks = {"guard": "PYFORMLANG_VERIF",
             "enable": "no hooks: every harness drives the public API of /repo's working tree; nothing to enable",
             "baseline_off_cmd": "cd /repo && /venv/bin/python -m pytest -q -p no:cacheprovider --timeout=900",
             "source_commits": [], "add_only": True}
    m = {"version": 1, "setup_cmd": "./vf ensure-env", "hooks": hooks,
         "engines": [{"name": "vf", "path": "/verif/vf", "serves_properties": sorted(claim),
                      "kind_free_text": "bounded symbolic execution of /repo's Python with CrossHair 0.0.110 + z3 "
                                        "(z3-solver wheel); 16 parallel shards; native replay of every counterexample; "
                                        "independent oracles in vlib/oracles"}],
         "checks": [], "not_applicable": [],
         "notes": "DESIGN.md explains the approach. Exit codes: 0 held on everything explored within the bound "
                  "(inconclusive shards are listed, never counted as confirmed); 1 violation (replayed natively, "
                  "`VIOLATION property=<id> replay=<path>`); 2 harness error. Known findings: known_findings.json "
                  "(+ known_findings.d/). `fix:` commits in /repo are listed there under `fixed`."}
    for p in props:
        pid = p["id"]
        if pid in claim:
            conds = registry.load(pid)
            qb = "; ".join("%s: %s" % (c.name, c.bound.get("quick")) for c in conds if "quick" in c.tiers)
            m["checks"].append({
                "property_id": pid,
                "quick_cmd": "./vf check %s --tier quick" % pid,
                "thorough_cmd": "./vf check %s --tier thorough" % pid,
                "evidence_file": "/verif/evidence/%s.json" % pid,
                "replay_cmd_template": "./vf replay {path}",
                "engine": "vf",
                "level_claimed": {"category": "other", "text": LEVEL_TEXT["default"],
                                  "design_ref": "DESIGN.md §2 (engine), §4 %s (bounds)" % pid},
                "level_note": ("Trusted: CrossHair's interpreter fidelity (mitigated by native replay), z3, the "
                               "oracle in vlib/oracles (validated by `vf selfcheck` and by the unchanged tree). "
                               "Quick bound: " + qb + (". " + NOTES[pid] if pid in NOTES else ""))[:3000],
                "technique": "solver-based bounded symbolic execution (CrossHair + z3) of the real code, judged by "
                             "an independent reference semantics",
            })
        else:
            m["not_applicable"].append({"property_id": pid, "reason": NOT_BUILT.get(
                pid, "check not registered yet: its harness has not yet been confirmed on the unchanged tree "
                     "(build phase)")})
    with open("/verif/MANIFEST.json", "w") as f:
        json.dump(m, f, indent=1)
    print("claimed", sorted(claim))


if __name__ == "__main__":
    main(set(sys.argv[1:]))
