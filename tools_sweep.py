"""Developer tool (not a registered check): native enumeration of a harness for quick triage."""
import sys, itertools, collections, json
sys.path.insert(0, '/verif')
from vlib import chx


def sweep(fn, ranges, limit=None, show=12):
    c = collections.Counter(); ex = {}; n = 0
    for raw in itertools.product(*ranges):
        chx.CHAN.reset()
        try:
            ok = fn(*raw)
        except Exception as e:
            key = ("CRASH", type(e).__name__, str(e)[:80]); c[key] += 1; ex.setdefault(key, raw); continue
        n += 1
        for f in chx.CHAN.fails:
            for fl in f['failures']:
                key = (fl['kind'], fl.get('op'), fl.get('exc'), tuple(fl.get('tags', [])))
                c[key] += 1
                ex.setdefault(key, (f['raw'], fl.get('detail'), fl.get('regex')))
        if limit and n >= limit:
            break
    print("evaluated", n)
    for k, v in c.most_common(show):
        print(v, k, ex[k])


def sparse_ts(n, k, mmax, slots=4):
    """canonical (t, m) pairs for decode_enfa_sparse"""
    allslots = [(q, s, r) for q in range(n) for s in range(k + 1) for r in range(n)]
    for m in range(mmax + 1):
        for combo in itertools.combinations(allslots, m):
            flat = [x for e in combo for x in e] + [0] * (3 * (slots - m))
            yield tuple(flat), m
