"""Developer tool (not a registered check): native enumeration of a harness for quick triage."""
import sys, itertools, collections, json
sys.path.insert(0, '/verif')
from vlib import chx


def sweep(fn, ranges, limit=None, show=12):
    c = collections.Counter(); ex = {}; n = 0
    for raw in itertools.product(*ranges):
        chx.CHAN.reset()
        try:
            ok = fn(*raw)
        except Exception as e:
            key = ("CRASH", type(e).__name__, str(e)[:80]); c[key] += 1; ex.setdefault(key, raw); continue
        n += 1
        for f in chx.CHAN.fails:
            for fl in f['failures']:
                key = (fl['kind'], fl.get('op'), fl.get('exc'), tuple(fl.get('tags', [])))
                c[key] += 1
                ex.setdefault(key, (f['raw'], fl.get('detail'), fl.get('regex')))
        if limit and n >= limit:
            break
    print("evaluated", n)
    for k, v in c.most_common(show):
        print(v, k, ex[k])


def sparse_ts(n, k, mmax, slots=4):
    """canonical (t, m) pairs for decode_enfa_sparse"""
    allslots = [(q, s, r) for q in range(n) for s in range(k + 1) for r in range(n)]
    for m in range(mmax + 1):
        for combo in itertools.combinations(allslots, m):
            flat = [x for e in combo for x in e] + [0] * (3 * (slots - m))
            yield tuple(flat), m


def cfg_ts(v, nt, b, pmax, slots=None):
    """canonical (t, p) for decode_cfg"""
    slots = slots or pmax
    bodies = []
    for ln in range(b + 1):
        for body in itertools.product(range(v + nt), repeat=ln):
            bodies.append((ln,) + tuple(body) + (0,) * (b - ln))
    allp = sorted((h,) + bd for h in range(v) for bd in bodies)
    for p in range(pmax + 1):
        for combo in itertools.combinations(allp, p):
            flat = [x for pr in combo for x in pr] + [0] * ((2 + b) * (slots - p))
            yield tuple(flat), p


def run_sweep(fn, raws, keyf=None, show=30):
    c = collections.Counter(); ex = {}; n = 0
    for raw in raws:
        chx.CHAN.reset()
        fn(*raw); n += 1
        for f in chx.CHAN.fails:
            for fl in f['failures']:
                key = (fl['kind'], fl.get('op'), fl.get('exc'), fl.get('site'), tuple(fl.get('tags', [])))
                if keyf:
                    key = keyf(fl)
                c[key] += 1
                ex.setdefault(key, (f['raw'], fl.get('detail')))
        for e in chx.CHAN.errors:
            k = ('ORACLE', e['error'][:80]); c[k] += 1; ex.setdefault(k, (e.get('raw'), e['traceback'][-500:]))
    print(fn.__name__, "evaluated", n)
    for k, v in c.most_common(show):
        print(v, k, ex[k])


def pda_ts(n, k, mmax, slots=None, npush=6, first_from_start=False):
    slots = slots or mmax
    alltr = sorted(itertools.product(range(n), range(k + 1), range(2), range(n), range(npush)))
    for m in range(mmax + 1):
        for combo in itertools.combinations(alltr, m):
            if first_from_start and m and not (combo[0][0] == 0 and combo[0][2] == 0):
                continue
            flat = [x for tr in combo for x in tr] + [0] * (5 * (slots - m))
            yield tuple(flat), m
