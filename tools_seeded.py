"""Developer tool: build /verif/seeded/<id>/ (patch.diff, demo.py, meta.json) from build/muts + build/mutants.log."""
import json, os, shutil, sys
log = {}
for line in open('/verif/build/mutants.log'):
    d = json.loads(line)
    log[d['mutant']] = d          # later lines (re-runs) win
root = '/verif/build/muts'
out = '/verif/seeded'
os.makedirs(out, exist_ok=True)
rows = []
for name in sorted(os.listdir(root)):
    src = os.path.join(root, name)
    if not os.path.isfile(os.path.join(src, 'patch.diff')):
        continue
    dst = os.path.join(out, name)
    os.makedirs(dst, exist_ok=True)
    for f in ('patch.diff', 'demo.py', 'patch.original.diff'):
        if os.path.exists(os.path.join(src, f)):
            shutil.copy(os.path.join(src, f), os.path.join(dst, f))
    meta = json.load(open(os.path.join(src, 'meta.json')))
    rec = log.get(name, {})
    conf = rec.get('confirm', {})
    chk = rec.get('check', {})
    prop = meta.get('property', name[:3])[:3]
    res = chk.get(prop, {})
    m = {
        "id": name,
        "property": prop,
        "summary": meta.get('summary'),
        "needs_to_manifest": meta.get('needs'),
        "files_changed": meta.get('files_changed'),
        "origin": "written by a sub-agent that saw only the property text and a scratch worktree of /repo (nothing from /verif)",
        "adapted": meta.get('adapted'),
        "confirmed_by_me": {
            "how": "tools_mut.py confirm: scratch worktree of /repo HEAD; demo.py on the clean tree must exit 0; with patch.diff "
                   "applied the 289 tests must pass and demo.py must exit non-zero",
            "demo_exit_clean": conf.get('demo_clean'), "tests_with_patch": conf.get('tests'),
            "demo_exit_patched": conf.get('demo_patched'), "ok": conf.get('ok')},
        "check_run": {
            "cmd": "VF_REPO=<scratch worktree with the patch> ./vf check %s --tier quick" % prop,
            "exit": res.get('exit'), "wall_s": res.get('wall_s'),
            "caught": res.get('exit') == 1,
            "first_lines": res.get('lines', [])[:2], "first_counterexample": (res.get('cex') or [None])[0]},
    }
    json.dump(m, open(os.path.join(dst, 'meta.json'), 'w'), indent=1)
    rows.append((name, prop, conf.get('ok'), res.get('exit'), res.get('wall_s'), (meta.get('summary') or '')[:110]))
print("| id | caught by quick check | what was seeded |")
print("|---|---|---|")
for name, prop, ok, ex, wall, summ in rows:
    print("| %s | %s | %s |" % (name, {1: "yes (%ss)" % wall, 0: "NO", None: "not run"}.get(ex, "exit %s" % ex), summ.replace("|", "\\|")))
