"""Developer tool: build /verif/seeded/<id>/ (patch.diff, demo.py, meta.json) from build/muts + build/mutants.log."""
import json, os, shutil, sys
log = {}
first = {}
for line in open('/verif/build/mutants.log'):
    d = json.loads(line)
    name = d['mutant']
    if name[-1] in "rx" and name[:-1][-1].isdigit():      # <id>r = re-run after the machinery was extended
        name = name[:-1]
        d = dict(d, mutant=name)
    if 'check' not in d and name in log and 'check' in log[name]:
        continue
    first.setdefault(name, d)
    log[name] = d          # later lines (re-runs) win
STRENGTHENED = {
    "C01_2": "missed at first (every family built its automaton once and never edited it); added condition c01_edit "
             "(query, remove_transition, query again)",
    "C02_2": "missed at first (needs >= 5 states over 2 symbols: no automaton of the exhaustive families triggers it); "
             "added condition c02_minimal_52, a slice of the 5-state partial DFAs (a-chain + arbitrary b-transitions)",
    "C03_2": "missed at first (C03 operands had 2 states); added condition c03_shapes with three-state operands whose "
             "final state lies on a cycle through another state",
    "C14_1": "missed at first (the production order that triggers it was not among the list orders of the quick "
             "shards); added list-order shards for the left-recursive shapes to c14_sets",
    "C16_1": "missed at first (output symbols were single characters); added condition c16_outputs with output words "
             "that print alike when joined",
    "C16_2": "the sub-agent's patch no longer applied after fix afa9f6e; re-expressed on the fixed lines, then caught",
    "C17_1": "missed at first (needs a chain of productions, 7 rules over 6 variables); added condition c17_chain "
             "(the chain and 7 variants in 196 rule orders)",
    "C13_2": "the sub-agent's patch no longer applied after fix 26c39e0; re-expressed on the fixed code, then caught "
             "(the native dry-run of the harness had caught the original patch before the fix)",
    "C19_1": "as C13_2 (same site); the original patch was first missed by the C19 harness natively (the new state "
             "sorted after the old ones) and caught after the PDA subjects / SUBJECT:new_start_state_0 op were added",
    "C05_1": "missed by the first C05 families in the native dry-run; caught after the composite combinators were added",
    "C05_2": "missed by the first C05 families in the native dry-run (needs >= 2 levels of redundant parentheses); "
             "caught after c05_wrapped was added",
    "C07_1": "missed in the native dry-run ({0,n} not in the token table); caught after {0,2} was added",
    "C07_2": "missed in the native dry-run (no form feed among the test strings, no '.' token in quick); caught after "
             "c07_wide and the control characters were added",
    "C08_1": "missed in the native dry-run (needs 3 variables); caught after the 4-variable chain family was added",
    "C08_2": "missed in the native dry-run (symbols declared in the constructor only); caught after c08_declared",
    "C09_1": "missed in the native dry-run (needs bodies of length 4 in quick); caught after c09_b4s",
    "C09_2": "missed in the native dry-run (needs 4 variables); caught after c09_chain / c12_chain",
    "C11_1": "missed in the native dry-run of the quick family (no grammar generating epsilon); caught after the "
             "S -> eps shards were added",
    "C12_1": "missed in the native dry-run (every query ran on a fresh object); caught after c12_sequence and the "
             "extra C19 grammar subjects",
    "C19_2": "missed in the native dry-run (alphabet not in the snapshot; subject never a right operand); caught "
             "after other_difference_subject and the alphabet snapshot",
    "C19_3": "missed in the native dry-run (no subject with a nullable variable that does not generate epsilon); "
             "caught after the subject S -> A b, A -> a | eps was added",
    "C20_1": "missed in the native dry-run (no falsy symbol); caught after the symbols 0 and '' were added",
    # ---- second round (groups H-L) ----
    "C01_3": "missed at first (Hopcroft's pending list matters from 5 states over 2 symbols on; C01 had no such DFA); "
             "added condition c01_dfa5 and permutation a-rows to c02_minimal_52 (the same change, filed under C02 "
             "as C02_3, was caught as first built)",
    "C01_4": "NOT a valid seeded change: with the patch the repository's own test_remove_epsilon_transitions fails under "
             "some hash seeds (1 run in 3); kept for the record, not counted (the C01 quick check does report it: c01_structural_dense)",
    "C03_4": "needs an operand that is used, edited and used again; condition c03_reuse was written after reading the "
             "change's description and before the first run (the earlier C03 conditions build every operand once)",
    "C04_4": "needs remove_transition before the query; condition c04_edit was written after reading the description "
             "and before the first run",
    "C05_4": "missed at first: the C05 oracle never flagged ill-formed text that is accepted; it now does for "
             "unambiguous defects (RX.must_refuse, DESIGN 2.3)",
    "C07_3": "missed at first (the pattern ([ab]){2} was not in a quick slice); the prefixes '((' and '([ab]' were added "
             "to the quick shards of c07_tokens4",
    "C07_4": "missed at first (no escaped parenthesis in the quick token table); the token \\) was added",
    "C08_4": "needs two bodies of length 4 sharing a tail; condition c08_b4s was written after reading the description "
             "and before the first run (the same family existed for C09 as c09_b4s)",
    "C09_4": "missed at first (needs input variables named C#CNF#1, C#CNF#2); added condition c09_names, whose native "
             "dry-run also exposed the genuine defect fixed in 89c4150",
    "C10_4": "needs a non-start variable called #STARTCLOS#; the name sets {S,#STARTCLOS#} / {S,#STARTCONC#} were added "
             "after reading the description and before the first run",
    "C11_4": "needs a regular operand whose DFA has more states than the PDA; condition c11_pda_dfa3 was added after the "
             "native dry-run of the existing families missed it, before the first CrossHair run",
    "C12_4": "needs a body of length 3 with a repeated symbol; condition c12_b3 was added after the native dry-run of the "
             "existing families missed it, before the first CrossHair run",
    "C16_4": "needs an operand state called 'star'; condition c16_star_names was written after reading the description "
             "and before the first run",
    "C17_3": "missed at first (needs a duplication below a production, 5 variables); added condition c17_dup",
    "C17_4": "missed at first (the regular operands were DFAs, which have no epsilon moves); added condition "
             "c17_inter_eps with EpsilonNFA operands",
    "C18_4": "needs two successive unifications into one receiver over three features; condition c18_unify_chain was "
             "added after a native dry-run of a first two-feature version missed it, before the first CrossHair run",
    "C19_4": "missed at first (no history edited the automaton itself); added condition c19_fa_edit",
    "C20_5": "C20 had no transducer condition; c20_fst was written after reading the description and before the first run",
    # ---- third round (groups M-P) ----
    "C08_5": "needs two terminals whose values differ and whose texts agree (1 / '1'); no C08 family had such terminals: "
             "condition c08_sametext was written after reading the description and before the first run",
    "C09_5": "same change as C08_5 (two agents chose it independently), filed under C09; condition c09_sametext was "
             "written after reading the description and before the first run",
    "C18_5": "missed at first (no template had a variable that is nullable only through a unit production and is "
             "predicted twice at one position); the template indirect_epsilon (S -> A A b, A -> B | a, B -> eps | a, "
             "annotated) was added to c18_fcfg",
    "C10_5": "needs substitute() with two keys whose grammars mention each other's terminal; c10_ops substitutes one "
             "terminal only: condition c10_subst2 was written after reading the patch and before the first run",
}
root = '/verif/build/muts'
out = '/verif/seeded'
os.makedirs(out, exist_ok=True)
rows = []
for name in sorted(os.listdir(root)):
    src = os.path.join(root, name)
    if not os.path.isfile(os.path.join(src, 'patch.diff')):
        continue
    dst = os.path.join(out, name)
    os.makedirs(dst, exist_ok=True)
    for f in ('patch.diff', 'demo.py', 'patch.original.diff'):
        if os.path.exists(os.path.join(src, f)):
            shutil.copy(os.path.join(src, f), os.path.join(dst, f))
    meta = json.load(open(os.path.join(src, 'meta.json')))
    rec = log.get(name, {})
    conf = rec.get('confirm', {})
    chk = rec.get('check', {})
    prop = meta.get('property', name[:3])[:3]
    res = chk.get(prop, {})
    m = {
        "id": name,
        "property": prop,
        "summary": meta.get('summary'),
        "needs_to_manifest": meta.get('needs'),
        "files_changed": meta.get('files_changed'),
        "origin": "written by a sub-agent that saw only the property text and a scratch worktree of /repo (nothing from /verif)",
        "round": (3 if open(os.path.join(src, 'group.txt')).read().strip() in "MNOP" else 2)
        if os.path.exists(os.path.join(src, 'group.txt')) else 1,
        "adapted": meta.get('adapted'),
        "confirmed_by_me": {
            "how": "tools_mut.py confirm: scratch worktree of /repo HEAD; demo.py on the clean tree must exit 0; with patch.diff "
                   "applied the 289 tests must pass and demo.py must exit non-zero",
            "demo_exit_clean": conf.get('demo_clean'), "tests_with_patch": conf.get('tests'),
            "demo_exit_patched": conf.get('demo_patched'), "ok": conf.get('ok')},
        "first_check_run_exit": (first.get(name, {}).get('check', {}).get(prop, {}) or {}).get('exit'),
        "strengthening": STRENGTHENED.get(name),
        "check_run": {
            "cmd": "VF_REPO=<scratch worktree with the patch> ./vf check %s --tier quick" % prop,
            "exit": res.get('exit'), "wall_s": res.get('wall_s'),
            "caught": res.get('exit') == 1,
            "first_lines": res.get('lines', [])[:2], "first_counterexample": (res.get('cex') or [None])[0]},
    }
    json.dump(m, open(os.path.join(dst, 'meta.json'), 'w'), indent=1)
    rows.append((name, prop, conf.get('ok'), res.get('exit'), res.get('wall_s'), (meta.get('summary') or '')[:110],
                 STRENGTHENED.get(name)))
print("| id | caught by `vf check <prop> --tier quick` | what was seeded | history |")
print("|---|---|---|---|")
for name, prop, ok, ex, wall, summ, st in rows:
    print("| %s | %s | %s | %s |" % (name, {1: "yes (%ss)" % wall, 0: "NO", None: "not run"}.get(ex, "exit %s" % ex),
                                   summ.replace("|", "\\|"), (st or "caught as first built").replace("|", "\\|")))
