"""Developer tool: per-condition shard statistics from the last run (build/<prop>/<tier>/*.json)."""
import json, glob, sys, collections
tier = sys.argv[1] if len(sys.argv) > 1 else "quick"
props = sys.argv[2:] or ["C%02d" % i for i in range(1, 21)]
for prop in props:
    c = collections.defaultdict(lambda: {"n": 0, "paths": 0, "judged": 0, "wall": 0.0, "max": 0.0, "maxpin": None, "status": collections.Counter()})
    for f in glob.glob('/verif/build/%s/%s/*.json' % (prop, tier)):
        d = json.load(open(f)); k = c[d['cond']]
        k["n"] += 1; k["paths"] += d['paths']; k["judged"] += d['chan']['counts'].get('reached', 0)
        k["wall"] += d['wall_s']; k["status"][d['status']] += 1
        if d['wall_s'] > k["max"]:
            k["max"] = d['wall_s']; k["maxpin"] = d['pin']
    tot = sum(k["wall"] for k in c.values())
    if c:
        print("%s total %.0f s CPU-wall (%.1f min on 16 cores ideal)" % (prop, tot, tot / 16 / 60))
    for name, k in c.items():
        print("   %-24s shards %3d paths %6d judged %6d wall %6.0f max %5.0f %s %s" % (name, k["n"], k["paths"], k["judged"], k["wall"], k["max"], dict(k["status"]), k["maxpin"]))
